import itertools, sys, warnings, collections
import numpy as np, pandas as pd
from multiprocessing import Pool
from fractions import Fraction
warnings.filterwarnings('ignore')
from matched_markets.methodology.tbrmmdata import TBRMMData
from matched_markets.methodology.tbrmatchedmarkets import TBRMatchedMarkets
from matched_markets.methodology.tbrmmdesignparameters import TBRMMDesignParameters
from matched_markets.methodology.geoeligibility import GeoEligibility
import ref
from panelmod import panel
G=int(sys.argv[1]) if len(sys.argv)>1 else 3
df = panel(G, 10, seed=1)
def run(args):
    rows, kw = args
    try:
        ge = GeoEligibility(pd.DataFrame({'geo':[str(i) for i in range(G)], 'control':[r[0] for r in rows],'treatment':[r[1] for r in rows],'exclude':[r[2] for r in rows]}))
        par = TBRMMDesignParameters(n_test=3, iroas=1.0, **kw)
        mm = TBRMatchedMarkets(TBRMMData(df,'sales',ge), par)
        cnt = mm.count_max_designs()
        gi = None
        listing=set(); n_listed=0
        for n in mm.treatment_group_size_range():
            for T in mm.treatment_group_generator(n):
                for C in mm.control_group_generator(T):
                    gi = mm.data.geo_index
                    listing.add((frozenset(gi[i] for i in T), frozenset(gi[i] for i in C))); n_listed+=1
        admitted = sorted(int(g) for g in mm.geos_within_constraints)
    except Exception as e:
        return ('exc', type(e).__name__, str(e)[:50])
    rowd = {g: rows[g] for g in range(G)}
    F = {(frozenset(str(g) for g in T), frozenset(str(g) for g in C)) for T,C in ref.legal_designs(rowd, admitted) if ref.within(T,C,kw,None)}
    out=[]
    if n_listed != len(listing): out.append('gen-dups')
    if cnt != n_listed: out.append(f'count!=listed')
    if listing != F: out.append('listed!=brute')
    return ('ok', tuple(out))
kws = [dict(), dict(treatment_geos_range=(2,3)), dict(control_geos_range=(2,2)), dict(geo_ratio_tolerance=0.5), dict(geo_ratio_tolerance=1.0), dict(geo_ratio_tolerance=2.0),
       dict(treatment_geos_range=(1,1), control_geos_range=(1,2), geo_ratio_tolerance=1.0), dict(treatment_geos_range=(1,2), control_geos_range=(2,3)), dict(treatment_geos_range=(3,4)), dict(control_geos_range=(1,1), geo_ratio_tolerance=0.25)]
if __name__=='__main__':
    jobs = [(rows, kw) for rows in itertools.product(ref.ROWS, repeat=G) for kw in kws]
    print(len(jobs))
    with Pool(16) as p: res = p.map(run, jobs, chunksize=10)
    c = collections.Counter(); ex={}
    for j,r in zip(jobs,res): c[r]+=1; ex.setdefault(r,j)
    for k,v in sorted(c.items(), key=lambda kv:-kv[1]): print(v,k,ex[k])
