import itertools, sys, warnings, collections
import numpy as np, pandas as pd
from multiprocessing import Pool
warnings.filterwarnings('ignore')
from matched_markets.methodology.tbrmmdata import TBRMMData
from matched_markets.methodology.tbrmatchedmarkets import TBRMatchedMarkets
from matched_markets.methodology.tbrmmdesignparameters import TBRMMDesignParameters
from matched_markets.methodology.geoeligibility import GeoEligibility
import ref
from panelmod import panel
G=4
df0 = panel(G, 10, seed=1)
def search(df, rows, names, kw, method, idtype=str):
    ge = GeoEligibility(pd.DataFrame({'geo':[idtype(names[i]) for i in range(G)], 'control':[r[0] for r in rows],'treatment':[r[1] for r in rows],'exclude':[r[2] for r in rows]}))
    par = TBRMMDesignParameters(n_test=3, iroas=1.0, n_designs=4, **kw)
    mm = TBRMatchedMarkets(TBRMMData(df,'sales',ge), par)
    res = getattr(mm, method)()
    inv = {str(v):k for k,v in names.items()}
    return [(tuple(sorted(inv[g] for g in d.treatment_geos)), tuple(sorted(inv[g] for g in d.control_geos)), tuple(float(v) for v in d.score.score), float(d.diag.required_impact), float(d.diag.corr)) for d in res]
def run(args):
    rows, kw, method = args
    ident = {i:i for i in range(G)}
    try: base = search(df0, rows, ident, kw, method, idtype=str)
    except Exception as e: return ('exc',type(e).__name__)
    out=[]
    # shuffle rows
    d1 = df0.sample(frac=1.0, random_state=3).reset_index(drop=True)
    if search(d1, rows, ident, kw, method)!=base: out.append('shuffle')
    d2 = df0.copy(); d2['date'] = d2['date'] + pd.Timedelta(days=1000)
    if search(d2, rows, ident, kw, method)!=base: out.append('dateshift')
    names = {0:'zz',1:'b',2:'y',3:'aa'}
    d3 = df0.copy(); d3['geo'] = d3['geo'].map(names)
    if search(d3, rows, names, kw, method)!=base: out.append('rename')
    d4 = df0.copy(); d4['geo']=d4['geo'].astype(str)
    if search(d4, rows, ident, kw, method, idtype=int)!=base: out.append('idtype')
    c=8.0
    d5 = df0.copy(); d5['sales']*=c
    kw5 = dict(kw)
    if 'budget_range' in kw5: kw5['budget_range']=tuple(c*b for b in kw5['budget_range'])
    r5 = search(d5, rows, ident, kw5, method)
    ok = len(r5)==len(base)
    if ok:
        for a,b in zip(base,r5):
            if a[0]!=b[0] or a[1]!=b[1] or a[2][:5]!=b[2][:5] or a[4]!=b[4] or b[3]!=c*a[3]: ok=False
            if 'budget_range' in kw:
                if a[2][5]!=b[2][5]: ok=False
            elif a[2][5]!=c*b[2][5]: ok=False
    if not ok: out.append('scale')
    return ('ok', tuple(out))
kws = [dict(), dict(geo_ratio_tolerance=0.5), dict(volume_ratio_tolerance=0.5), dict(treatment_share_range=(0.1,0.4)), dict(budget_range=(5.0,15.0)), dict(n_geos_max=3)]
if __name__=='__main__':
    import random
    allrows = list(itertools.product(ref.ROWS, repeat=G))
    random.Random(0).shuffle(allrows)
    jobs = [(rows, kw, m) for rows in allrows[:300] for kw in kws for m in ('exhaustive_search','greedy_search')]
    print(len(jobs))
    with Pool(16) as p: res = p.map(run, jobs, chunksize=5)
    c = collections.Counter(); ex={}
    for j,r in zip(jobs,res): c[r]+=1; ex.setdefault(r,j)
    for k,v in sorted(c.items(), key=lambda kv:-kv[1]): print(v,k,ex[k])
