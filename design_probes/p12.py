import warnings; warnings.filterwarnings('ignore')
import numpy as np, pandas as pd, math
from scipy import stats
from matched_markets.methodology.tbr import TBR
from matched_markets.methodology.tbrmmdiagnostics import TBRMMDiagnostics
from matched_markets.methodology.tbrmmdesignparameters import TBRMMDesignParameters
rng = np.random.RandomState(0)
for n, n_test, sig, power, flevel in [(8,3,0.9,0.8,0.9),(5,1,0.95,0.7,0.95),(12,6,0.8,0.9,0.99),(4,2,0.9,0.8,0.9)]:
    x = 50+np.cumsum(rng.normal(size=n)); y = 2*x+rng.normal(size=n)
    par = TBRMMDesignParameters(n_test=n_test, iroas=1.0, sig_level=sig, power_level=power, flevel=flevel)
    d = TBRMMDiagnostics(y, par); d.x = x
    RI = d.required_impact
    phi = stats.f.ppf(flevel, 1, n-1)
    Sxx = ((x-x.mean())**2).sum()
    dx = math.sqrt(phi*(n+1)*Sxx/(n*n_test*(n-1)))
    a,b,_,_ = d.pretestfit
    xt = np.full(n_test, x.mean()+dx)
    yt = a + b*xt + RI/n_test
    dates = pd.date_range('2020-01-01', periods=n+n_test)
    rows=[]
    for i in range(n+n_test):
        per = 0 if i<n else 1
        rows.append(dict(date=dates[i], geo=1, group=1, period=per, response=(x[i] if i<n else xt[i-n])))
        rows.append(dict(date=dates[i], geo=2, group=2, period=per, response=(y[i] if i<n else yt[i-n])))
    df = pd.DataFrame(rows).set_index('geo')
    m = TBR(use_cooldown=False); m.fit(df,'response')
    s = m.summary(level=sig, tails=1).iloc[0]
    tq_sig = stats.t.ppf(sig, n-2); tq_pow = stats.t.ppf(power, n-2)
    print(n, n_test, 'RI', RI, 'est', s['estimate'], 'scale*(tqs+tqp)', s['scale']*(tq_sig+tq_pow), 'lower', s['lower'], 'tq_pow*scale', tq_pow*s['scale'])
    f = d.tbrfit(xt.mean(), yt.mean()); print('   tbrfit', f.estimate, f.cihw, 'precision', s['precision'], f.scale)
