import warnings; warnings.filterwarnings('ignore')
import numpy as np, pandas as pd, itertools, collections
from matched_markets.methodology.tbr_iroas import TBRiROAS
from multiprocessing import Pool
def frame(xc, yt, npre, ntest, ncool, cost_t, cost_c):
    n = npre+ntest+ncool
    dates = pd.date_range('2020-01-01', periods=n)
    period = [0]*npre+[1]*ntest+[2]*ncool
    rows=[]
    for i in range(n):
        rows.append(dict(date=dates[i], geo=10, group=1, period=period[i], response=xc[i], cost=cost_c[i]))
        rows.append(dict(date=dates[i], geo=20, group=2, period=period[i], response=yt[i], cost=cost_t[i]))
    return pd.DataFrame(rows).set_index('geo')
def run(args):
    seed, npre, ntest, ncool, scen, tails, level, usecool = args
    rng = np.random.RandomState(seed)
    n=npre+ntest+ncool
    x = np.round(50+np.cumsum(rng.normal(size=n))*4); y = 2*x+np.round(rng.normal(size=n)*2); y[npre:npre+ntest]+=8
    if scen=='fixed':
        cc = np.zeros(n); ct = np.zeros(n); ct[npre:npre+ntest]=10
    else:
        cc = np.round(8+rng.normal(size=n)*2); ct = 2*cc+np.round(rng.normal(size=n)); ct[npre:npre+ntest]+=12
    df = frame(x,y,npre,ntest,ncool,ct,cc)
    out=[]
    try:
        ir=TBRiROAS(use_cooldown=usecool); ir.fit(df)
        s1 = ir.summary(level=level, tails=tails, random_state=7, nsims=2000).iloc[0]
        s2 = ir.summary(level=level, tails=tails, random_state=7, nsims=2000).iloc[0]
        if not s1.equals(s2): out.append('nondet')
        if s1['scenario']!=scen: out.append('scenario')
        if not (s1['lower']<=s1['estimate']<=s1['upper']): out.append('order')
        if scen=='fixed':
            if not np.isclose(s1['incremental_response']/s1['incremental_cost'], s1['estimate'], rtol=1e-9): out.append('est')
            if not np.isclose(s1['lower']*s1['incremental_cost'], s1['incremental_response_lower']): out.append('lower')
        a,b = 4.0, 0.5
        df2 = df.copy(); df2['cost']*=a; df2['response']*=b
        ir2=TBRiROAS(use_cooldown=usecool); ir2.fit(df2)
        t1 = ir2.summary(level=level, tails=tails, random_state=7, nsims=2000).iloc[0]
        for k in ('estimate','lower','upper','precision'):
            if not (np.isclose(t1[k], s1[k]*b/a, rtol=1e-7, atol=0) or (np.isinf(t1[k]) and np.isinf(s1[k]))): out.append('equiv-'+k)
        for k in ('probability','relative_lift','relative_lift_lower'):
            if not np.isclose(t1[k], s1[k], rtol=1e-7, atol=1e-12): out.append('inv-'+k)
    except Exception as e:
        return ('exc', type(e).__name__, str(e)[:60])
    return ('ok', tuple(out))
if __name__=='__main__':
    jobs = list(itertools.product(range(6), [4,6,10], [1,3], [0,2], ['fixed','variable'], [1,2], [0.5,0.8,0.95], [True, False]))
    print(len(jobs))
    with Pool(16) as p: res = p.map(run, jobs, chunksize=5)
    c = collections.Counter(); ex={}
    for j,r in zip(jobs,res): c[r]+=1; ex.setdefault(r,j)
    for k,v in sorted(c.items(), key=lambda kv:-kv[1]): print(v,k,ex[k])
    print('---order failures by config')
    cc = collections.Counter()
    for j,r in zip(jobs,res):
        if r[0]=='ok' and 'order' in r[1]: cc[(j[1],j[4],j[5],j[6])]+=1
    for k,v in sorted(cc.items()): print(k,v)
