import warnings; warnings.filterwarnings('ignore')
import numpy as np, pandas as pd, traceback
from matched_markets.methodology.tbr_iroas import TBRiROAS
rng = np.random.RandomState(0)
def frame(periods):
    n=len(periods); dates = pd.date_range('2020-01-01', periods=n)
    x = np.round(50+np.cumsum(rng.normal(size=n))*4); y = 2*x+np.round(rng.normal(size=n)*2)
    rows=[]
    for i in range(n):
        rows.append(dict(date=dates[i], geo=10, group=1, period=periods[i], response=x[i], cost=0.0))
        rows.append(dict(date=dates[i], geo=20, group=2, period=periods[i], response=y[i]+(5 if periods[i]==1 else 0), cost=10.0 if periods[i]==1 else 0.0))
        rows.append(dict(date=dates[i], geo=30, group=-1, period=periods[i], response=3.0, cost=0.0))
    return pd.DataFrame(rows).set_index('geo')
for name, periods in [('plain',[0]*8+[1]*3+[2]*2), ('lead-unassigned',[-1]*2+[0]*8+[1]*3+[2]*2), ('gap-unassigned',[0]*8+[-1]+[1]*3+[2]*2), ('trail-post',[0]*8+[1]*3+[2]*2+[-1]*2), ('no-cooldown-rows',[0]*8+[1]*3)]:
    ir=TBRiROAS(); ir.fit(frame(periods))
    for metric in ('tbr_response','tbr_cost'):
        try:
            ts = ir.estimate_pointwise_and_cumulative_effect(metric, tails=2); print(name, metric, 'ok', len(ts.counterfactual), len(ts.cumulative_effect))
        except Exception as e: print(name, metric, 'raised', type(e).__name__, str(e)[:80])
    try: print(ir.summary().iloc[0][['estimate','lower']].values)
    except Exception as e: print('summary raised', type(e).__name__, e)
