import warnings; warnings.filterwarnings('ignore')
import numpy as np, pandas as pd, scipy.stats as st
print('t1 mean', st.t(1, loc=3, scale=2).mean(), 't2 mean', st.t(2, loc=3, scale=2).mean(), st.t(1,loc=3,scale=2).ppf(0.5))
from matched_markets.methodology.tbr import TBR
rng = np.random.RandomState(0)
def frame(npre, ntest, ncool, seed=0, gc=1, gt=1, extra=False, shuffle=False):
    rng = np.random.RandomState(seed)
    n=npre+ntest+ncool; dates = pd.date_range('2020-01-01', periods=n)
    periods=[0]*npre+[1]*ntest+[2]*ncool
    x = np.round(50+np.cumsum(rng.normal(size=n))*4)*4; y = 2*x+np.round(rng.normal(size=n)*2)*4
    rows=[]
    for i in range(n):
        for g in range(gc): rows.append(dict(date=dates[i], geo=10+g, group=1, period=periods[i], response=x[i]/gc))
        for g in range(gt): rows.append(dict(date=dates[i], geo=20+g, group=2, period=periods[i], response=y[i]/gt))
        if extra: rows.append(dict(date=dates[i], geo=30, group=-1, period=periods[i], response=7.0))
    if extra:
        for k in range(2):
            d = dates[0]-pd.Timedelta(days=k+1)
            rows.append(dict(date=d, geo=10, group=1, period=-1, response=1.0)); rows.append(dict(date=d, geo=20, group=2, period=-1, response=5.0))
    df = pd.DataFrame(rows)
    if shuffle: df = df.sample(frac=1.0, random_state=1)
    return df.set_index('geo')
base=None
for kw in [dict(), dict(gc=2,gt=4), dict(extra=True), dict(shuffle=True), dict(gc=2,gt=2,extra=True,shuffle=True)]:
    m = TBR(); m.fit(frame(6,3,2,**kw),'response'); s = m.summary(report='all', tails=2, level=0.8, threshold=3.0)
    if base is None: base=s
    print(kw, np.allclose(s.values, base.values, rtol=1e-12), (s.values==base.values).all())
m = TBR(); m.fit(frame(3,2,0),'response'); print(m.summary(report='all', tails=2).T)
