"""Prototype: explicit-state BFS over TBRMMDiagnostics histories."""
import warnings; warnings.filterwarnings('ignore')
import numpy as np, copy, collections, time, math
from matched_markets.methodology.tbrmmdiagnostics import TBRMMDiagnostics
from matched_markets.methodology.tbrmmdesignparameters import TBRMMDesignParameters
n=12
t = np.arange(n, dtype=float)
Y = {1: 3*t + np.array([0,1,0,2,1,0,1,2,0,1,0,2.]), 2: np.array([5,9,4,8,3,9,5,7,2,8,4,9.])*3}
X = {1: 2*t + np.array([1,0,2,0,1,1,0,2,1,0,2,0.]), 2: np.array([3,1,4,1,5,9,2,6,5,3,5,8.]), 3: np.concatenate([t[:6], t[6:]+30])}
par = TBRMMDesignParameters(n_test=3, iroas=1.0)
def fp(v):
    if v is None: return None
    if isinstance(v, np.ndarray): return ('arr',)+tuple(repr(float(z)) for z in v.ravel())
    if isinstance(v, tuple): return tuple(fp(z) for z in v)
    if isinstance(v, (bool, np.bool_)): return bool(v)
    if isinstance(v, (float, np.floating, int, np.integer)): return repr(float(v))
    return repr(v)
QUERIES = ['corr','required_impact','pretestfit','bbtest','dwtest','aatest','corr_test','tests_ok']
def read(d, q):
    try: return fp(getattr(d,q))
    except Exception as e: return ('EXC', type(e).__name__)
OPS = [('setx',i) for i in X]+[('clearx',None)]+[('sety',j) for j in Y]+[('read',q) for q in QUERIES]
def apply(d, op):
    k,a = op
    if k=='setx': d.x = X[a]
    elif k=='clearx': d.x=None
    elif k=='sety': d.y = Y[a]
    else: return read(d,a)
def canon(d):
    return tuple((k, fp(v)) for k,v in sorted(d.__dict__.items()) if k!='_par')
def fresh(xid,yid):
    d = TBRMMDiagnostics(Y[yid], par)
    if xid is not None: d.x = X[xid]
    return d
fresh_cache={}
def fresh_answer(xid,yid,q):
    key=(xid,yid,q)
    if key not in fresh_cache: fresh_cache[key]=read(fresh(xid,yid),q)
    return fresh_cache[key]
t0=time.time()
init = TBRMMDiagnostics(Y[1], par); model0=(None,1)
seen={ (canon(init),model0): [] }; frontier=collections.deque([(init,model0,[])]); trans=0; viol=[]
while frontier:
    d, model, hist = frontier.popleft()
    # invariant: every query on a copy equals fresh
    for q in QUERIES:
        got = read(copy.deepcopy(d), q); exp = fresh_answer(model[0],model[1],q)
        if got!=exp: viol.append((hist,q))
    for op in OPS:
        d2 = copy.deepcopy(d); apply(d2, op); trans+=1
        m2 = model
        if op[0]=='setx': m2=(op[1],model[1])
        elif op[0]=='clearx': m2=(None,model[1])
        elif op[0]=='sety': m2=(None,op[1])
        key=(canon(d2),m2)
        if key not in seen:
            seen[key]=hist+[op]; frontier.append((d2,m2,hist+[op]))
print('states',len(seen),'transitions',trans,'violations',len(viol),'time',time.time()-t0)
viol.sort(key=lambda v: len(v[0]))
for v in viol[:5]: print(v)
print('max depth', max(len(h) for h in seen.values()))
