"""Prototype: BFS over TBRMatchedMarkets call histories vs fresh-object answers."""
import warnings; warnings.filterwarnings('ignore')
import numpy as np, pandas as pd, copy, collections, time, dataclasses, sys
from matched_markets.methodology.tbrmmdata import TBRMMData
from matched_markets.methodology.tbrmatchedmarkets import TBRMatchedMarkets
from matched_markets.methodology.tbrmmdesignparameters import TBRMMDesignParameters
from matched_markets.methodology.geoeligibility import GeoEligibility, GeoAssignments
from matched_markets.methodology.tbrmmdesign import TBRMMDesign
from matched_markets.methodology.tbrmmscore import TBRMMScore
from matched_markets.methodology.tbrmmdiagnostics import TBRMMDiagnostics
from matched_markets.methodology.heapdict import HeapDict
from panelmod import panel
G=4
df = panel(G, 12, seed=2)
rows = [(1,1,1),(1,1,0),(1,1,1),(1,0,1)]
def mk():
    ge = GeoEligibility(pd.DataFrame({'geo':[str(i) for i in range(G)], 'control':[r[0] for r in rows],'treatment':[r[1] for r in rows],'exclude':[r[2] for r in rows]}))
    par = TBRMMDesignParameters(n_test=3, iroas=1.0, n_designs=3, geo_ratio_tolerance=1.0)
    dfc = df.copy()
    return TBRMatchedMarkets(TBRMMData(dfc,'sales',ge), par), par, dfc
def fp(v, depth=0):
    if v is None or isinstance(v,(str,bool,int)): return v
    if isinstance(v,(float,np.floating)): return repr(float(v))
    if isinstance(v,np.integer): return int(v)
    if isinstance(v,np.bool_): return bool(v)
    if isinstance(v,np.ndarray): return ('arr',v.shape,v.tobytes())
    if isinstance(v,pd.DataFrame): return ('df',tuple(map(str,v.index)),tuple(map(str,v.columns)),v.to_numpy().tobytes())
    if isinstance(v,pd.Series): return ('ser',tuple(map(str,v.index)),v.to_numpy().tobytes())
    if isinstance(v,(set,frozenset)): return ('set',tuple(sorted((fp(x) for x in v), key=repr)))
    if isinstance(v,(list,tuple,range)): return (type(v).__name__,tuple(fp(x) for x in v))
    if isinstance(v,dict): return ('dict',tuple(sorted(((fp(k),fp(x)) for k,x in v.items()), key=repr)))
    if isinstance(v,(GeoEligibility,GeoAssignments,TBRMMData,TBRMatchedMarkets,TBRMMDesign,TBRMMScore,TBRMMDiagnostics,HeapDict,TBRMMDesignParameters)):
        return (type(v).__name__, tuple((k,fp(x)) for k,x in sorted(vars(v).items())))
    return ('repr',repr(v))
def designs(res): return tuple((tuple(sorted(d.treatment_geos)), tuple(sorted(d.control_geos)), tuple(repr(float(s)) for s in d.score.score), fp(d.diag.x), fp(d.diag.y)) for d in res)
def ga(a): return tuple((k,tuple(sorted(v))) for k,v in sorted(vars(a).items()))
OPS = {
 'geos_over_budget': lambda m: tuple(sorted(m.geos_over_budget)),
 'geos_within_constraints': lambda m: tuple(sorted(m.geos_within_constraints)),
 'geo_assignments': lambda m: ga(m.geo_assignments),
 'trt_size_range': lambda m: tuple(m.treatment_group_size_range()),
 'count_max_designs': lambda m: m.count_max_designs(),
 'trt_groups_1': lambda m: tuple(tuple(sorted(t)) for t in m.treatment_group_generator(1)),
 'ctl_groups_T0': lambda m: tuple(tuple(sorted(c)) for c in m.control_group_generator({0})),
 'within_T0C1': lambda m: bool(m.design_within_constraints({0},{1})),
 'exhaustive': lambda m: designs(m.exhaustive_search()),
 'greedy': lambda m: designs(m.greedy_search()),
 'results': lambda m: designs(m.search_results()),
}
def call(m, op):
    try: return ('val', OPS[op](m))
    except Exception as e: return ('exc', type(e).__name__, str(e)[:40])
fresh={}
for op in OPS:
    m,_,_ = mk(); fresh[op]=call(m,op)
m0,par0,df0 = mk(); par_before = dataclasses.asdict(par0); df_before=df0.copy()
seen={fp(m0): []}; frontier=collections.deque([(m0,[],None)]); trans=0; viol=[]; t0=time.time()
while frontier:
    m,hist,last = frontier.popleft()
    for op in OPS:
        m2 = copy.deepcopy(m); got = call(m2,op); trans+=1
        exp = fresh[op]
        if op=='results': exp = last if last is not None else fresh[op]
        if got!=exp: viol.append((hist+[op], got[:2] if got[0]=='exc' else 'val-differs'))
        if dataclasses.asdict(m2.parameters)!=par_before: viol.append((hist+[op],'params-mutated'))
        l2 = got if op in ('exhaustive','greedy') else last
        key=fp(m2)
        if key not in seen and len(hist)<4:
            seen[key]=hist+[op]; frontier.append((m2,hist+[op],l2))
print('states',len(seen),'transitions',trans,'time',time.time()-t0)
seenv=set()
for h,w in sorted(viol,key=lambda v:len(v[0])):
    if (h[-1],w) in seenv: continue
    seenv.add((h[-1],w)); print(h,w)
for k,h in seen.items(): print('state via',h)
