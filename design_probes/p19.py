import warnings; warnings.filterwarnings('ignore')
import numpy as np, pandas as pd, math, itertools, collections
from scipy import stats
from multiprocessing import Pool
from matched_markets.methodology.tbr_iroas import TBRiROAS
from matched_markets.methodology.tbr import TBR
def ref_tbr(xp, yp, xt, yt):
    xp=np.asarray(xp,float); yp=np.asarray(yp,float); xt=np.asarray(xt,float); yt=np.asarray(yt,float)
    n=len(xp); xb=xp.mean(); Sxx=((xp-xb)**2).sum(); b=((xp-xb)*(yp-yp.mean())).sum()/Sxx; a=yp.mean()-b*xb
    res=yp-a-b*xp; s2=(res**2).sum()/(n-2)
    eff = yt-a-b*xt; loc=np.cumsum(eff); t=np.arange(1,len(xt)+1); S=np.cumsum(xt-xb)
    scale=np.sqrt(s2*(t+t**2/n+S**2/Sxx))
    return dict(a=a,b=b,res=res,df=n-2,loc=loc,scale=scale,eff=eff)
def frame(x,y,cost_t,npre,ntest,ncool):
    n=npre+ntest+ncool; dates=pd.date_range('2020-01-01',periods=n); per=[0]*npre+[1]*ntest+[2]*ncool
    rows=[]
    for i in range(n):
        rows.append(dict(date=dates[i],geo=1,group=1,period=per[i],response=x[i],cost=0.0))
        rows.append(dict(date=dates[i],geo=2,group=2,period=per[i],response=y[i],cost=cost_t[i]))
    return pd.DataFrame(rows).set_index('geo')
def run(args):
    seed,npre,ntest,ncool,swing,level,tails = args
    rng=np.random.RandomState(seed); n=npre+ntest+ncool
    x=np.round(40+np.cumsum(rng.normal(size=n))*3); y=2*x+np.round(rng.normal(size=n)*3); y[npre:npre+ntest]+=6
    if swing:
        x[npre]+=swing; 
        if ntest+ncool>1: x[npre+1]-=swing
    ct=np.zeros(n); ct[npre:npre+ntest]=5
    df=frame(x,y,ct,npre,ntest,ncool)
    r=ref_tbr(x[:npre],y[:npre],x[npre:],y[npre:])
    mono = bool(np.all(np.diff(np.concatenate([[0],r['scale']]))>=0))
    ir=TBRiROAS(); ir.fit(df)
    out=[]
    d = ir.tbr_response.causal_cumulative_distribution()
    if not (np.allclose(d.kwds['loc'],r['loc'],rtol=1e-9,atol=1e-9) and np.allclose(d.kwds['scale'],r['scale'],rtol=1e-9) and d.args[0]==r['df']): out.append('C06-dist')
    try:
        ts=ir.estimate_pointwise_and_cumulative_effect('tbr_response',level=level,tails=tails)
        ok=True
    except ValueError as e:
        ok=False
    if ok!=mono: out.append(f'K1-mismatch ok={ok} mono={mono}')
    if ok:
        tail=(1-level)/tails
        cf=ts.counterfactual; pw=ts.pointwise_difference; cu=ts.cumulative_effect
        if not np.allclose(cf['estimate'].values+pw['estimate'].values, y, atol=1e-8): out.append('cf+pw!=obs')
        if not np.allclose(pw['estimate'].values[:npre], r['res'], atol=1e-8): out.append('pre-resid')
        q=stats.t.ppf(tail, r['df'])
        if not (np.isclose(cu['estimate'].values[-1], r['loc'][-1]) and np.isclose(cu['lower'].values[-1], r['loc'][-1]+q*r['scale'][-1]) and np.isclose(cu['upper'].values[-1], r['loc'][-1]-q*r['scale'][-1])): out.append('cum-last')
        for s in (cf,pw,cu):
            if not ((s['lower']<=s['estimate']+1e-12).all() and (s['estimate']<=s['upper']+1e-12).all()): out.append('order')
    return tuple(out)
if __name__=='__main__':
    jobs=list(itertools.product(range(5),[4,6,10],[1,2,4],[1,2],[0,5,20,60],[0.5,0.8,0.95],[1,2]))
    print(len(jobs))
    with Pool(16) as p: res=p.map(run,jobs,chunksize=10)
    c=collections.Counter(res)
    for k,v in c.most_common(): print(v,k)
    print('non-monotone cases:', sum(1 for j in jobs if j[4]>=20))
    cc=collections.Counter()
    for j,r in zip(jobs,res):
        if r: cc[(r[0][:22], j[4], j[5], j[6])]+=1
    for k,v in sorted(cc.items()): print(k,v)
