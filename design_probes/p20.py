import warnings; warnings.filterwarnings('ignore')
import itertools, collections, datetime
import numpy as np, pandas as pd
from matched_markets.methodology import utils
from matched_markets.methodology.geoeligibility import GeoEligibility
# ---- C20
days = ['2019/12/30','2019/12/31','2020/01/01','2020/02/28','2020/02/29','2020/03/01','2021/02/28','2021/03/01']
def od(s): return datetime.date(*map(int,s.split('/'))).toordinal()
entries = [(d,(od(d),od(d))) for d in days] + [(f'{a} - {b}',(od(a),od(b))) for a,b in itertools.combinations_with_replacement(days,2)]
bad=0; n=0
for k in (1,2):
    for combo in itertools.product(entries, repeat=k):
        n+=1
        exp=set()
        for _,(a,b) in combo: exp |= set(range(a,b+1))
        got = utils.expand_time_windows(utils.find_days_to_exclude([e for e,_ in combo]))
        g = [t.to_pydatetime() for t in got]
        if len(got)!=len(set(got)) or any(t.hour or t.minute for t in g) or {t.date().toordinal() for t in g}!=exp: bad+=1
print('C20 lists',n,'bad',bad)
rev=0
for a,b in itertools.combinations(days,2):
    try: utils.expand_time_windows(utils.find_days_to_exclude([f'{b} - {a}'])); rev+=1
    except ValueError: pass
print('reversed accepted', rev)
# ---- C16
ROWS8 = list(itertools.product([0,1],repeat=3))
def classes(rows):
    out={}
    names={(1,0,0):'c_fixed',(0,1,0):'t_fixed',(0,0,1):'x_fixed',(1,1,0):'ct',(1,0,1):'cx',(1,1,1):'ctx',(0,1,1):'tx'}
    return names
names=classes(None)
cnt=collections.Counter()
for n_ in (1,2,3):
    for rows in itertools.product(ROWS8, repeat=n_):
        ids=[f'g{i}' for i in range(n_)]
        df=pd.DataFrame({'geo':ids,'control':[r[0] for r in rows],'treatment':[r[1] for r in rows],'exclude':[r[2] for r in rows]})
        valid = all(r!=(0,0,0) for r in rows)
        try: ge=GeoEligibility(df); acc=True
        except ValueError: acc=False
        except Exception as e: cnt['other-exc:'+type(e).__name__]+=1; continue
        if acc!=valid: cnt['accept-mismatch']+=1; continue
        if not acc: cnt['rejected-ok']+=1; continue
        rowd=dict(zip(ids,rows))
        for r in range(0,n_+1):
            for sub in itertools.permutations(ids,r):
                for indices in (False,True):
                    try: a=ge.get_eligible_assignments(list(sub), indices=indices)
                    except Exception as e: cnt[f'subset-exc:{type(e).__name__}:len{len(sub)}:{indices}']+=1; continue
                    key = (lambda g: sub.index(g)) if indices else (lambda g: g)
                    ok=True
                    for cls in set(names.values()):
                        exp={key(g) for g in sub if names[rowd[g]]==cls}
                        if getattr(a,cls)!=exp: ok=False
                    if a.all!={key(g) for g in sub}: ok=False
                    cnt['subset-ok' if ok else f'subset-bad:len{len(sub)}']+=1
print(cnt)
