import math, itertools, collections, numpy as np
from matched_markets.methodology.tbrmmdesignparameters import TBRMMDesignParameters
inf=float('inf'); nan=float('nan')
def nxt(x): return math.nextafter(x, inf)
def prv(x): return math.nextafter(x, -inf)
A,R,U='ACCEPT','REJECT','UNSPEC'
def isnum(v): return type(v) in (int,float)
def scalar(lo, lo_incl, hi, hi_incl, integer, optional):
    def f(v):
        if v is None: return A if optional else R
        if isinstance(v,bool) or isinstance(v,(np.generic,)): return U
        if not isnum(v): return R
        if v!=v: return R
        okl = v>=lo if lo_incl else v>lo
        okh = True if hi is None else (v<=hi if hi_incl else v<hi)
        if not (okl and okh): return R
        if integer:
            if type(v) is int: return A
            if v==inf or v==-inf: return R
            return U if float(v).is_integer() else R
        return A
    return f
def rng(lo, lo_incl, hi, hi_incl, strict_order, integer):
    def f(v):
        if v is None: return A
        if not isinstance(v,tuple) or len(v)!=2: return R
        if any(isinstance(x,bool) or isinstance(x,np.generic) for x in v): return U
        if not all(isnum(x) for x in v): return R
        a,b=v
        if a!=a or b!=b: return R
        if not (a>=lo if lo_incl else a>lo): return R
        if hi is not None and not (b<=hi if hi_incl else b<hi): return R
        if b==inf or a==inf: return R
        if not (a<b if strict_order else a<=b): return R
        if integer:
            if all(type(x) is int for x in v): return A
            return U if all(float(x).is_integer() for x in v) else R
        return A
    return f
DOM = dict(
 n_test=scalar(1,True,None,None,True,False), iroas=scalar(0.0,True,None,None,False,False),
 volume_ratio_tolerance=scalar(0.0,False,None,None,False,True), geo_ratio_tolerance=scalar(0.0,False,None,None,False,True),
 treatment_share_range=rng(0.0,False,1.0,False,True,False), budget_range=rng(0.0,True,None,None,True,False),
 treatment_geos_range=rng(1,True,None,None,False,True), control_geos_range=rng(1,True,None,None,False,True),
 n_geos_max=scalar(2,True,None,None,True,True), n_pretest_max=scalar(3,True,None,None,True,False), n_designs=scalar(1,True,None,None,True,False),
 rho_max=scalar(0.9,True,1.0,False,False,False), sig_level=scalar(0.0,False,1.0,False,False,False), power_level=scalar(0.0,False,1.0,False,False,False),
 min_corr=scalar(0.8,True,1.0,False,False,False), flevel=scalar(0.9,True,1.0,False,False,False))
base=[None,0,1,2,3,-1,0.0,1.0,0.5,0.8,0.9,0.995,2.5,inf,-inf,nan,10**400,'1',[1,2],(1,),True,np.int64(3),np.float64(0.95),2.0,3.0]
for b in (0.0,0.8,0.9,1.0,2.0,3.0): base += [nxt(b),prv(b)]
pairs=[(a,b) for a in (0,1,2,0.0,0.1,0.5,1.0,prv(1.0),nxt(0.0),nan,inf,-1,1.5,2.0,True,'a') for b in (0,1,2,3,0.0,0.3,0.5,1.0,prv(1.0),inf,nan,2.5,3.0,1e6)] + [(1,2,3),[1,2],(1,)]
cnt=collections.Counter(); ex={}
for f,dom in DOM.items():
    grid = base+pairs
    for v in grid:
        kw=dict(n_test=3,iroas=1.0); kw[f]=v
        try: TBRMMDesignParameters(**kw); got=A
        except ValueError: got=R
        except Exception as e: got='EXC:'+type(e).__name__
        exp=dom(v)
        if exp==U and got in (A,R): k='ok-unspec'
        elif exp==got: k='ok'
        else: k=f'MISMATCH exp={exp} got={got}'; ex.setdefault((f,k),[]).append(v)
        cnt[k]+=1
print(cnt)
for k,v in ex.items(): print(k, [repr(x)[:30] for x in v][:12])
