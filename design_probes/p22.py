import itertools, sys, warnings, collections, math, random
import numpy as np, pandas as pd
from multiprocessing import Pool
warnings.filterwarnings('ignore')
from matched_markets.methodology.tbrmmdata import TBRMMData
from matched_markets.methodology.tbrmatchedmarkets import TBRMatchedMarkets
from matched_markets.methodology.tbrmmdesignparameters import TBRMMDesignParameters
from matched_markets.methodology.tbrmmdiagnostics import TBRMMDiagnostics
from matched_markets.methodology.geoeligibility import GeoEligibility
import ref
from panelmod import panel
G=4; T=14
df = panel(G, T, seed=3)
raw = {(r.geo, r.date): r.sales for r in df.itertuples()}
dates = sorted(set(df.date))
def run(args):
    rows, kw, method = args
    try:
        ge = GeoEligibility(pd.DataFrame({'geo':[str(i) for i in range(G)], 'control':[r[0] for r in rows],'treatment':[r[1] for r in rows],'exclude':[r[2] for r in rows]}))
        par = TBRMMDesignParameters(n_test=3, iroas=2.0, n_designs=6, **kw)
        mm = TBRMatchedMarkets(TBRMMData(df,'sales',ge), par)
        res = getattr(mm, method)()
    except Exception as e: return ('exc', type(e).__name__)
    out=[]
    npm = kw.get('n_pretest_max', 90); win = dates[-npm:]
    seen_ids=set()
    for d in res:
        y = np.array([sum(raw[(int(g),dt)] for g in d.treatment_geos) for dt in win]); x = np.array([sum(raw[(int(g),dt)] for g in d.control_geos) for dt in win])
        for dg in (d.diag, d.score.diag):
            if not (np.array_equal(dg.y,y) and np.array_equal(dg.x,x)): out.append('series')
        if id(d.diag) in seen_ids: out.append('shared-diag')
        seen_ids.add(id(d.diag))
        c = ref.corr(x,y); ri = ref.est_impact(y, c, par)
        if not (math.isclose(d.diag.corr,c,rel_tol=1e-9) and math.isclose(d.diag.required_impact,ri,rel_tol=1e-9)): out.append('corr/ri')
        f = TBRMMDiagnostics(y, par); f.x = x
        br = kw.get('budget_range')
        last = br[1]/f.required_impact if (br is not None and method=='exhaustive_search') else 1/f.required_impact
        exp = (int(f.corr_test), int(f.aatest.test_ok), int(f.bbtest.test_ok), int(f.dwtest.test_ok), round(f.corr,2), last)
        if not np.allclose(np.array(d.score.score,float), np.array(exp,float), rtol=1e-12): out.append('score')
    return ('ok', tuple(sorted(set(out))), len(res))
kws=[dict(), dict(n_pretest_max=8), dict(n_pretest_max=6, budget_range=(1.0,80.0)), dict(budget_range=(5.0,60.0)), dict(n_pretest_max=10, n_geos_max=3), dict(treatment_share_range=(0.1,0.5), n_pretest_max=7)]
if __name__=='__main__':
    allrows=list(itertools.product(ref.ROWS, repeat=G)); random.Random(1).shuffle(allrows)
    jobs=[(rows,kw,m) for rows in allrows[:500] for kw in kws for m in ('exhaustive_search','greedy_search')]
    print(len(jobs))
    with Pool(16) as p: res=p.map(run,jobs,chunksize=10)
    c=collections.Counter((r[0],r[1]) for r in res); 
    for k,v in c.most_common(): print(v,k)
    print('designs checked', sum(r[2] for r in res if r[0]=='ok'))
