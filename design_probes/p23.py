import warnings; warnings.filterwarnings('ignore')
import numpy as np, pandas as pd, itertools, collections
from multiprocessing import Pool
from matched_markets.methodology import tbrdiagnostics
def frame(G, npre, ntest, seed, noisy, outlier, custom):
    rng = np.random.RandomState(seed)
    n=npre+ntest; dates = pd.date_range('2020-01-01', periods=n)
    trend = np.round(np.cumsum(rng.normal(size=n))*6 + 60)
    rows=[]
    for g in range(G):
        for i,d in enumerate(dates):
            v = (g+1)*trend[i] + rng.randint(-2,3)
            if noisy is not None and g==noisy: v = float(rng.randint(0,60))
            if outlier is not None and i==outlier and g%2==1: v += 40*(g+1)
            rows.append(dict(date=d, geo=g, group=1 + (g%2), period=0 if i<npre else 1, response=float(v)))
    df=pd.DataFrame(rows)
    kw={}
    if custom:
        df=df.rename(columns={'geo':'Geo','group':'grp','period':'per','response':'sales','date':'day'})
        df['grp']=df['grp'].map({1:7,2:5})
        kw=dict(key_geo='Geo',key_group='grp',key_period='per',key_response='sales',key_date='day',group_control=7,group_treatment=5)
    return df,kw
def canon(df): return sorted(map(tuple, df.astype(object).values.tolist()), key=repr)
def run(args):
    G,seed,noisy,outlier,custom = args
    df,kw = frame(G,14,4,seed,noisy,outlier,custom)
    names = dict(geo=kw.get('key_geo','geo'),date=kw.get('key_date','date'),group=kw.get('key_group','group'),resp=kw.get('key_response','response'))
    cid,tid = kw.get('group_control',1), kw.get('group_treatment',2)
    obs=[]
    for order in ('id','rev','shuf'):
        d0 = df if order=='id' else (df.iloc[::-1] if order=='rev' else df.sample(frac=1.0, random_state=5))
        d0 = d0.reset_index(drop=True); before=d0.copy(deep=True)
        t=tbrdiagnostics.TBRDiagnostics()
        try: t.fit(d0, target=names['resp'], **kw)
        except Exception as e: return ('exc', type(e).__name__, str(e)[:60])
        out=[]
        if not d0.equals(before): out.append('input-modified')
        r=t.get_test_results(); noisy_g = r['noisy_geos'] or []; outl = r['outlier_dates'] or []
        exp = d0[~d0[names['geo']].isin(noisy_g) & ~d0[names['date']].isin(outl)]
        got = t.get_data()
        if canon(got)!=canon(exp): out.append('data-mismatch')
        ad = t.get_analysis_data()
        ex_x = exp[exp[names['group']]==cid].groupby(names['date'])[names['resp']].sum(); ex_y = exp[exp[names['group']]==tid].groupby(names['date'])[names['resp']].sum()
        if not (np.allclose(ad['x'].values, ex_x.values) and np.allclose(ad['y'].values, ex_y.values) and list(ad.index)==list(ex_x.index)): out.append('analysis-mismatch')
        obs.append((tuple(sorted(map(int,noisy_g))), tuple(map(str,sorted(outl))), bool(r['corr_test']), tuple(out)))
    res=[]
    if len(set(obs))!=1: res.append('order-dependent')
    res += list(obs[0][3])
    return ('ok', tuple(res), bool(obs[0][0]), bool(obs[0][1]))
if __name__=='__main__':
    jobs=[(G,seed,noisy,outlier,custom) for G in (2,4,5,6) for seed in range(4) for noisy in [None]+list(range(G)) for outlier in (None,3,9,15) for custom in (False,True)]
    print(len(jobs))
    with Pool(16) as p: res=p.map(run,jobs,chunksize=4)
    c=collections.Counter(res)
    for k,v in c.most_common(): print(v,k)
