import warnings; warnings.filterwarnings('ignore')
import numpy as np, pandas as pd, itertools, collections, math
from multiprocessing import Pool
from matched_markets.methodology.tbrmmdata import TBRMMData
from matched_markets.methodology.geoeligibility import GeoEligibility
ROWS7 = [(1,1,1),(1,0,0),(0,1,0),(0,0,1),(1,1,0),(1,0,1),(0,1,1)]
CLS={(1,0,0):'c_fixed',(0,1,0):'t_fixed',(0,0,1):'x_fixed',(1,1,0):'ct',(1,0,1):'cx',(1,1,1):'ctx',(0,1,1):'tx'}
VAL={(g,t): 10*(g+1)+3*t+ (g*t)%2 for g in range(3) for t in range(3)}
DATES=pd.date_range('2021-05-01',periods=3)
def run(args):
    G,T,mask,idt,order,elig = args
    cells=[(g,t) for g in range(G) for t in range(T)]
    present=[c for c,m in zip(cells,mask) if m]
    rows=[dict(date=DATES[t], geo=(g if idt=='int' else str(g)), resp=float(VAL[(g,t)])) for g,t in present]
    if order=='rev': rows=rows[::-1]
    df=pd.DataFrame(rows); before=df.copy()
    out=[]
    geos=sorted({g for g,_ in present}); dts=sorted({t for _,t in present})
    mean={g: sum(VAL[(g,t)] for t in dts if (g,t) in present)/len(dts) for g in geos}
    ge=None; rowd=None
    if elig is not None:
        rowd={str(g):r for g,r in elig.items() if r is not None}
        if rowd:
            ge=GeoEligibility(pd.DataFrame({'geo':list(rowd),'control':[r[0] for r in rowd.values()],'treatment':[r[1] for r in rowd.values()],'exclude':[r[2] for r in rowd.values()]}))
        else: rowd=None
    exp_err = rowd is not None and any(r[2]==0 and int(g) not in geos for g,r in rowd.items())
    try: d=TBRMMData(df,'resp',ge)
    except ValueError: return ('ok',() if exp_err else ('unexpected-ValueError',))
    except Exception as e: return ('exc',type(e).__name__)
    if exp_err: return ('ok',('missing-required-accepted',))
    if not df.equals(before): out.append('input-modified')
    if sorted(d.df.index)!=[str(g) for g in geos]: out.append('rowset')
    m=[mean[int(g)] for g in d.df.index]
    if any(a<b for a,b in zip(m,m[1:])): out.append('order')
    if list(d.df.columns)!=[DATES[t] for t in dts]: out.append('cols')
    for g in d.df.index:
        for t in dts:
            e = VAL[(int(g),t)] if (int(g),t) in present else 0
            if d.df.loc[g,DATES[t]]!=e: out.append('cell')
    tot=sum(mean.values())
    if list(d.geo_share.index)!=list(d.df.index) or not all(math.isclose(d.geo_share[g], mean[int(g)]/tot, rel_tol=1e-12) for g in d.df.index): out.append('share')
    if rowd is None: exp_as={str(g) for g in geos}
    else: exp_as={g for g,r in rowd.items() if int(g) in geos and r!=(0,0,1)}
    if d.assignable!=exp_as: out.append('assignable')
    # geo index orders
    for r in range(1,len(exp_as)+1):
        for sub in itertools.permutations(sorted(exp_as), r):
            d.geo_index=list(sub)
            for k in range(1,r+1):
                for S in itertools.combinations(range(r),k):
                    ts=d.aggregate_time_series(set(S)); es=[sum((VAL[(int(sub[i]),t)] if (int(sub[i]),t) in present else 0) for i in S) for t in dts]
                    if list(ts)!=es: out.append('agg-ts')
                    if not math.isclose(d.aggregate_geo_share(set(S)), sum(mean[int(sub[i])] for i in S)/tot, rel_tol=1e-12): out.append('agg-share')
            ga=d.geo_assignments
            rr = rowd if rowd is not None else {g:(1,1,1) for g in exp_as}
            for cls in set(CLS.values()):
                if getattr(ga,cls)!={i for i,g in enumerate(sub) if CLS[rr[g]]==cls}: out.append('ga')
    return ('ok',tuple(sorted(set(out))))
if __name__=='__main__':
    jobs=[]
    for G,T in [(2,2),(3,2),(2,3)]:
        for mask in itertools.product([0,1],repeat=G*T):
            if not any(mask): continue
            for idt in ('int','str'):
                for order in ('id','rev'):
                    jobs.append((G,T,mask,idt,order,None))
    for rows in itertools.product([None]+ROWS7, repeat=3):
        for extra in (None,(1,0,1),(1,1,1),(1,0,0)):
            e={0:rows[0],1:rows[1],2:rows[2]}
            if extra is not None: e[9]=extra
            jobs.append((3,2,(1,1,1,1,1,1),'int','id',e)); 
    for rows in itertools.product([None]+ROWS7, repeat=3):
        jobs.append((3,2,(1,1,0,0,1,0),'str','rev',{0:rows[0],1:rows[1],2:rows[2]}))   # geo 1 absent from data
    print(len(jobs))
    with Pool(16) as p: res=p.map(run,jobs,chunksize=20)
    c=collections.Counter(res)
    for k,v in c.most_common(): print(v,k)
