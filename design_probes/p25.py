# 5-geo deviation-bounded probe (<=2 non-free rows) of legality/constraints + exceptions, on whichever tree PYTHONPATH selects
import itertools, sys, collections
import p8
from multiprocessing import Pool
G=5
def mats():
    base=[(1,1,1)]*G
    alts=[r for r in p8.ROWS if r!=(1,1,1)]
    yield tuple(base)
    for i in range(G):
        for a in alts:
            m=list(base); m[i]=a; yield tuple(m)
    for i,j in itertools.combinations(range(G),2):
        for a in alts:
            for b in alts:
                m=list(base); m[i]=a; m[j]=b; yield tuple(m)
if __name__=='__main__':
    jobs=[(rows,kw,m) for rows in mats() for kw in p8.kws for m in ('exhaustive_search','greedy_search')]
    print(len(jobs))
    with Pool(16) as p: res=p.map(p8.run, jobs, chunksize=4)
    c=collections.Counter(); ex={}
    for j,r in zip(jobs,res):
        key=(j[2],)+r; c[key]+=1; ex.setdefault(key,j)
    for k,v in sorted(c.items(), key=lambda kv:-kv[1]): print(v,k,ex[k][:2])
