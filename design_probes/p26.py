import itertools, sys, warnings, collections, math
import numpy as np, pandas as pd
from multiprocessing import Pool
warnings.filterwarnings('ignore')
from matched_markets.methodology.tbrmmdata import TBRMMData
from matched_markets.methodology.tbrmatchedmarkets import TBRMatchedMarkets
from matched_markets.methodology.tbrmmdesignparameters import TBRMMDesignParameters
from matched_markets.methodology.geoeligibility import GeoEligibility
import ref
from panelmod import panel
G=4; T=12
df = panel(G, T, seed=4)
raw = {}
for r in df.itertuples(): raw.setdefault(r.geo,{})[r.date]=r.sales
dates=sorted(set(df.date))
def run(args):
    rows, kw = args   # rows[g] may be None (absent from matrix)
    present=[g for g in range(G) if rows[g] is not None]
    if not present: return ('skip',)
    ge = GeoEligibility(pd.DataFrame({'geo':[str(g) for g in present],'control':[rows[g][0] for g in present],'treatment':[rows[g][1] for g in present],'exclude':[rows[g][2] for g in present]}))
    par = TBRMMDesignParameters(n_test=3, iroas=2.0, **kw)
    try:
        mm = TBRMatchedMarkets(TBRMMData(df,'sales',ge), par); got={int(g) for g in mm.geos_within_constraints}
    except Exception as e: return ('exc',type(e).__name__)
    npm=kw.get('n_pretest_max',90); win=dates[-npm:]
    series={g:[raw[g][d] for d in win] for g in range(G)}
    means={g: sum(raw[g][d] for d in dates)/len(dates) for g in range(G)}   # share over ALL dates
    tot=sum(means.values()); share={g:means[g]/tot for g in range(G)}
    imp={g: ref.est_impact(series[g], par.rho_max, par) for g in range(G)}
    assignable={g for g in present if rows[g]!=(0,0,1)}
    must={g for g in present if rows[g][2]==0}
    big=set()
    sr=kw.get('treatment_share_range'); br=kw.get('budget_range')
    if sr: big|={g for g in range(G) if share[g]>sr[1]}
    if br: big|={g for g in range(G) if imp[g]>br[1]*par.iroas}
    adm=(assignable-big)|must
    ngm=kw.get('n_geos_max')
    if ngm is not None and len(adm)>ngm:
        rest=sorted((g for g in adm if g not in must), key=lambda g:-imp[g])
        adm=must|set(rest[:max(ngm-len(must),0)])
    return ('ok', got==adm)
kws=[dict(), dict(n_geos_max=2), dict(n_geos_max=3), dict(treatment_share_range=(0.1,0.3)), dict(treatment_share_range=(0.1,0.3),n_geos_max=2), dict(budget_range=(1.0,25.0)), dict(budget_range=(1.0,25.0),n_geos_max=2,n_pretest_max=8), dict(budget_range=(1.0,12.0),treatment_share_range=(0.05,0.35)), dict(n_pretest_max=7,budget_range=(0.5,18.0))]
if __name__=='__main__':
    jobs=[(rows,kw) for rows in itertools.product([None]+ref.ROWS, repeat=G) for kw in kws]
    print(len(jobs))
    with Pool(16) as p: res=p.map(run,jobs,chunksize=20)
    c=collections.Counter(res); ex={}
    for j,r in zip(jobs,res): ex.setdefault(r,j)
    for k,v in c.most_common(): print(v,k,ex[k])
