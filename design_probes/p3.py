import itertools, dataclasses, time, traceback, sys, warnings, collections
import numpy as np, pandas as pd
from multiprocessing import Pool
warnings.filterwarnings('ignore')
from matched_markets.methodology.tbrmmdata import TBRMMData
from matched_markets.methodology.tbrmatchedmarkets import TBRMatchedMarkets
from matched_markets.methodology.tbrmmdesignparameters import TBRMMDesignParameters
from matched_markets.methodology.geoeligibility import GeoEligibility
from panelmod import panel

ROWS = [(1,1,1),(1,0,0),(0,1,0),(0,0,1),(1,1,0),(1,0,1),(0,1,1)]
G=3
df = panel(G, 10, seed=1)
def run(args):
    rows, kw, method = args
    out=[]
    try:
        ge = GeoEligibility(pd.DataFrame({'geo':[str(i) for i in range(G)], 'control':[r[0] for r in rows],'treatment':[r[1] for r in rows],'exclude':[r[2] for r in rows]}))
        par = TBRMMDesignParameters(n_test=3, iroas=1.0, n_designs=3, **kw)
        data = TBRMMData(df,'sales',ge)
        mm = TBRMatchedMarkets(data, par)
        res = getattr(mm, method)()
        return ('ok', len(res))
    except Exception as e:
        tb = traceback.extract_tb(e.__traceback__)
        last = [f for f in tb if 'matched_markets' in f.filename][-1]
        return (type(e).__name__, f'{last.filename.split("/")[-1]}:{last.lineno}', str(e)[:60])

kws = [dict(), dict(treatment_geos_range=(2,3)), dict(control_geos_range=(2,2)), dict(geo_ratio_tolerance=0.5), dict(volume_ratio_tolerance=0.5),
       dict(treatment_share_range=(0.1,0.4)), dict(budget_range=(0.0,1.0)), dict(budget_range=(1.0,30.0)), dict(budget_range=(0.0,1.0), geo_ratio_tolerance=1.0), dict(n_geos_max=2),
       dict(budget_range=(1000.0,3000.0)), dict(treatment_geos_range=(3,3), control_geos_range=(3,3)), dict(treatment_share_range=(0.01,0.02)), dict(budget_range=(0.0,1.0), volume_ratio_tolerance=1.0)]
jobs = [(rows, kw, m) for rows in itertools.product(ROWS, repeat=G) for kw in kws for m in ('exhaustive_search','greedy_search')]
print(len(jobs))
if __name__=='__main__':
    with Pool(16) as p:
        res = p.map(run, jobs, chunksize=20)
    c = collections.Counter()
    ex = {}
    for j,r in zip(jobs,res):
        key = (j[2],)+ (r if r[0]!='ok' else ('ok',))
        c[key]+=1
        ex.setdefault(key, j)
    for k,v in sorted(c.items(), key=lambda kv: -kv[1]): print(v, k, ex[k][:2])
