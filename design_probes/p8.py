import itertools, dataclasses, time, traceback, sys, warnings, collections
import numpy as np, pandas as pd
from multiprocessing import Pool
warnings.filterwarnings('ignore')
from matched_markets.methodology.tbrmmdata import TBRMMData
from matched_markets.methodology.tbrmatchedmarkets import TBRMatchedMarkets
from matched_markets.methodology.tbrmmdesignparameters import TBRMMDesignParameters
from matched_markets.methodology.tbrmmdiagnostics import TBRMMDiagnostics
from matched_markets.methodology.geoeligibility import GeoEligibility

def panel(G, T, seed=0):
    rng = np.random.RandomState(seed)
    dates = pd.date_range('2020-03-01', periods=T)
    rows=[]
    for g in range(G):
        base = rng.randint(0, 10, size=T)
        for d,date in enumerate(dates):
            rows.append({'date':date,'geo':g,'sales': float((g+1)*10 + (g+1)*d + base[d])})
    return pd.DataFrame(rows)
ROWS = [(1,1,1),(1,0,0),(0,1,0),(0,0,1),(1,1,0),(1,0,1),(0,1,1)]
G=int(sys.argv[1]) if len(sys.argv)>1 else 3
KSEL=sys.argv[2] if len(sys.argv)>2 else None
df = panel(G, 10, seed=1)
tab = df.pivot_table(values='sales', index='geo', columns='date')
means = tab.mean(axis=1); share_all = means/means.sum()

def run(args):
    rows, kw, method = args
    try:
        ge = GeoEligibility(pd.DataFrame({'geo':[str(i) for i in range(G)], 'control':[r[0] for r in rows],'treatment':[r[1] for r in rows],'exclude':[r[2] for r in rows]}))
        par = TBRMMDesignParameters(n_test=3, iroas=1.0, n_designs=3, **kw)
        data = TBRMMData(df,'sales',ge)
        mm = TBRMatchedMarkets(data, par)
        admitted = set(mm.geos_within_constraints)
        res = getattr(mm, method)()
    except Exception as e:
        return ('exc', type(e).__name__)
    bad=[]
    for d in res:
        T = {int(g) for g in d.treatment_geos}; C = {int(g) for g in d.control_geos}
        if not T or not C or T&C: bad.append('empty/overlap')
        if any(rows[g][1]==0 for g in T): bad.append('t-inelig')
        if any(rows[g][0]==0 for g in C): bad.append('c-inelig')
        for g in range(G):
            if rows[g][2]==0 and g not in T|C: bad.append('must-include-missing')
            if rows[g]==(0,0,1) and g in T|C: bad.append('xfixed-present')
        tr = kw.get('treatment_geos_range'); cr = kw.get('control_geos_range')
        if tr and not tr[0]<=len(T)<=tr[1]: bad.append('tsize')
        if cr and not cr[0]<=len(C)<=cr[1]: bad.append('csize')
        gt = kw.get('geo_ratio_tolerance')
        if gt is not None and not (1/(1+gt) <= len(C)/len(T) <= 1+gt): bad.append('georatio')
        vt = kw.get('volume_ratio_tolerance')
        sT = sum(share_all[g] for g in T); sC = sum(share_all[g] for g in C)
        if vt is not None and not (1/(1+vt)-1e-9 <= sC/sT <= 1+vt+1e-9): bad.append('volratio')
        sr = kw.get('treatment_share_range')
        if sr is not None:
            sadm = sum(share_all[int(g)] for g in admitted)
            if not (sr[0]-1e-9<=sT<=sr[1]+1e-9) and not (sr[0]-1e-9<=sT/sadm<=sr[1]+1e-9): bad.append('share')
        br = kw.get('budget_range')
        if br is not None:
            y = tab.loc[sorted(T)].sum(axis=0).values; x = tab.loc[sorted(C)].sum(axis=0).values
            dg = TBRMMDiagnostics(y, par); dg.x = x
            b = dg.required_impact/par.iroas
            if not (br[0]*(1-1e-9) <= b <= br[1]*(1+1e-9)): bad.append('budget')
    return ('ok', tuple(sorted(set(bad))))

kws = [dict(), dict(treatment_geos_range=(2,3)), dict(control_geos_range=(2,2)), dict(geo_ratio_tolerance=0.5), dict(volume_ratio_tolerance=0.5),
       dict(treatment_share_range=(0.1,0.4)), dict(budget_range=(1.0,30.0)), dict(budget_range=(5.0,15.0)), dict(budget_range=(10.0,40.0)), dict(n_geos_max=2),dict(n_geos_max=3),
       dict(treatment_share_range=(0.2,0.3)), dict(budget_range=(5.0,20.0), volume_ratio_tolerance=1.0), dict(treatment_geos_range=(1,1), control_geos_range=(1,2), geo_ratio_tolerance=1.0)]
if KSEL: kws=[kws[int(i)] for i in KSEL.split(",")]
if __name__=="__main__":
    jobs = [(rows, kw, m) for rows in itertools.product(ROWS, repeat=G) for kw in kws for m in ('exhaustive_search','greedy_search')]
    print(len(jobs))
    with Pool(16) as p:
        res = p.map(run, jobs, chunksize=20)
    c = collections.Counter(); ex={}
    for j,r in zip(jobs,res):
        key=(j[2],)+r; c[key]+=1; ex.setdefault(key,j)
    for k,v in sorted(c.items(), key=lambda kv:-kv[1]): print(v,k,ex[k][:2])
