import itertools, dataclasses, time, traceback, sys, warnings, collections, math
import numpy as np, pandas as pd
from multiprocessing import Pool
warnings.filterwarnings('ignore')
from matched_markets.methodology.tbrmmdata import TBRMMData
from matched_markets.methodology.tbrmatchedmarkets import TBRMatchedMarkets
from matched_markets.methodology.tbrmmdesignparameters import TBRMMDesignParameters
from matched_markets.methodology.tbrmmdiagnostics import TBRMMDiagnostics
from matched_markets.methodology.tbrmmscore import TBRMMScore
from matched_markets.methodology.geoeligibility import GeoEligibility
import ref
from panelmod import panel
G=int(sys.argv[1]) if len(sys.argv)>1 else 3
df = panel(G, 10, seed=1)
tab = df.pivot_table(values='sales', index='geo', columns='date')
means = tab.mean(axis=1); share_all = {g: means[g]/means.sum() for g in range(G)}
series = {g: tab.loc[g].values for g in range(G)}

def score_of(T,C,par,kw):
    y = sum(series[g] for g in sorted(T)); x = sum(series[g] for g in sorted(C))
    d = TBRMMDiagnostics(y, par); d.x = x
    s = TBRMMScore(d).score
    ri = d.required_impact
    br = kw.get('budget_range')
    if br is not None: s = s._replace(inv_required_impact=br[1]/ri)
    return tuple(float(v) for v in s), ri

def run(args):
    rows, kw, k = args
    rowd = {g: rows[g] for g in range(G)}
    par = TBRMMDesignParameters(n_test=3, iroas=1.0, n_designs=k, **kw)
    try:
        ge = GeoEligibility(pd.DataFrame({'geo':[str(i) for i in range(G)], 'control':[r[0] for r in rows],'treatment':[r[1] for r in rows],'exclude':[r[2] for r in rows]}))
        mm = TBRMatchedMarkets(TBRMMData(df,'sales',ge), par)
        admitted = sorted(int(g) for g in mm.geos_within_constraints)
        res = mm.exhaustive_search()
        eres = [(frozenset(int(g) for g in d.treatment_geos), frozenset(int(g) for g in d.control_geos), tuple(float(v) for v in d.score.score)) for d in res]
        gres = None
        if 'budget_range' not in kw and 'treatment_share_range' not in kw:
            par2 = TBRMMDesignParameters(n_test=3, iroas=1.0, n_designs=k, **kw)
            mm2 = TBRMatchedMarkets(TBRMMData(df,'sales',ge), par2)
            try:
                g_ = mm2.greedy_search()
                gres = [(frozenset(int(g) for g in d.treatment_geos), frozenset(int(g) for g in d.control_geos), tuple(float(v) for v in d.score.score)) for d in g_]
            except Exception as e: gres = 'exc:'+type(e).__name__
    except Exception as e:
        return ('exc', type(e).__name__)
    # reference feasible set over admitted geos
    F = {}
    exempt = set()
    br = kw.get('budget_range'); sr = kw.get('treatment_share_range')
    tfixed = frozenset(g for g in admitted if rows[g]==(0,1,0))
    for T,C in ref.legal_designs(rowd, admitted):
        if not ref.within(T,C,kw,share_all): continue
        sT = sum(share_all[g] for g in T)
        if sr is not None and not (sr[0] <= sT <= sr[1]): continue
        s, ri = score_of(T,C,par,kw)
        if br is not None and not (br[0] <= ri/par.iroas <= br[1]): continue
        F[(T,C)] = s
        if br is not None:
            # exemption: T or any admissible sub-group (contains tfixed, nonempty) with optimistic budget outside range
            for r in range(1, len(T)+1):
                for S in itertools.combinations(sorted(T), r):
                    S=frozenset(S)
                    if not tfixed <= S: continue
                    b = ref.est_impact(sum(series[g] for g in sorted(S)), par.rho_max, par)/par.iroas
                    if b > br[1] or b < br[0]: exempt.add((T,C))
    out=[]
    got = {(T,C) for T,C,_ in eres}
    if len(got)!=len(eres): out.append('dups')
    if not got <= set(F): out.append('returned-infeasible')
    must = {d for d in F if d not in exempt}
    if len(eres) < min(k, len(must)): out.append('too-few')
    if eres:
        worst = min(s for _,_,s in eres)
        better = [d for d in must - got if F[d] > worst]
        if better: out.append('missed-better')
        if [s for _,_,s in eres] != sorted([s for _,_,s in eres], reverse=True): out.append('unsorted')
        for T,C,s in eres:
            if (T,C) in F and not np.allclose(F[(T,C)], s, rtol=1e-9): out.append('score-mismatch')
    elif must: out.append('empty-but-feasible')
    if gres is not None and not isinstance(gres,str):
        for T,C,s in gres:
            if (T,C) not in F: out.append('greedy-infeasible')
            elif eres and s > eres[0][2] and not np.allclose(s, eres[0][2]): out.append('greedy-beats')
        if not F and gres: out.append('greedy-nonempty')
    elif isinstance(gres,str): out.append(gres)
    return ('ok', tuple(sorted(set(out))), len(F), len(exempt))

kws = [dict(), dict(treatment_geos_range=(2,3)), dict(control_geos_range=(2,2)), dict(geo_ratio_tolerance=0.5), dict(volume_ratio_tolerance=0.5),
       dict(treatment_share_range=(0.1,0.4)), dict(budget_range=(1.0,30.0)), dict(budget_range=(5.0,15.0)), dict(budget_range=(10.0,40.0)), dict(n_geos_max=2),dict(n_geos_max=3),
       dict(treatment_share_range=(0.2,0.3)), dict(budget_range=(5.0,20.0), volume_ratio_tolerance=1.0), dict(treatment_geos_range=(1,1), control_geos_range=(1,2), geo_ratio_tolerance=1.0), dict(budget_range=(5.0,20.0), treatment_share_range=(0.1,0.6))]
KSEL=sys.argv[2] if len(sys.argv)>2 else None
if KSEL: kws=[kws[int(i)] for i in KSEL.split(",")]
if __name__=='__main__':
    jobs = [(rows, kw, k) for rows in itertools.product(ref.ROWS, repeat=G) for kw in kws for k in (1,3)]
    print(len(jobs))
    with Pool(16) as p:
        res = p.map(run, jobs, chunksize=10)
    c = collections.Counter(); ex={}
    for j,r in zip(jobs,res):
        key=r[:2]; c[key]+=1; ex.setdefault(key,(j,r))
    for k,v in sorted(c.items(), key=lambda kv:-kv[1]): print(v,k,ex[k])
