import numpy as np, pandas as pd
def panel(G, T, seed=0):
    rng = np.random.RandomState(seed)
    dates = pd.date_range('2020-03-01', periods=T)
    rows=[]
    for g in range(G):
        base = rng.randint(0, 10, size=T)
        for d,date in enumerate(dates):
            rows.append({'date':date,'geo':g,'sales': float((g+1)*10 + (g+1)*d + base[d])})
    return pd.DataFrame(rows)
