"""Throwaway reference pieces for probing (not framework)."""
import itertools, math
from fractions import Fraction
import numpy as np
from scipy import stats

ROWS = [(1,1,1),(1,0,0),(0,1,0),(0,0,1),(1,1,0),(1,0,1),(0,1,1)]

def impact_mult(n_test, n, flevel, sig, power):
    phi = stats.f.ppf(flevel, 1, n-1)
    return (stats.t.ppf(sig, n-2)+stats.t.ppf(power, n-2))*n_test*math.sqrt(phi*(n+1)/(n*n_test*(n-1))+1/n+1/n_test)

def est_impact(y, rho, par):
    y = np.asarray(y, float); n=len(y)
    sd = math.sqrt(((y-y.mean())**2).sum()/(n-2))
    return impact_mult(par.n_test, n, par.flevel, par.sig_level, par.power_level)*sd*math.sqrt(1-rho**2)

def corr(x,y):
    x=np.asarray(x,float); y=np.asarray(y,float)
    dx=x-x.mean(); dy=y-y.mean()
    return (dx*dy).sum()/math.sqrt((dx*dx).sum()*(dy*dy).sum())

def legal_designs(rows, admitted):
    """rows: dict geo-> (c,t,x); admitted: list of geos. yields (T,C) frozensets."""
    adm = list(admitted)
    opts=[]
    for g in adm:
        c,t,x = rows[g]
        o=[]
        if c: o.append('c')
        if t: o.append('t')
        if x: o.append('x')
        opts.append(o)
    for a in itertools.product(*opts):
        T = frozenset(g for g,v in zip(adm,a) if v=='t'); C = frozenset(g for g,v in zip(adm,a) if v=='c')
        if T and C: yield T,C

def within(T, C, kw, share):
    """share: dict geo->share vs all data. Returns dict of constraint->bool (structural ones exact)."""
    tr=kw.get('treatment_geos_range'); cr=kw.get('control_geos_range'); gt=kw.get('geo_ratio_tolerance'); vt=kw.get('volume_ratio_tolerance')
    if tr and not (tr[0] <= len(T) <= tr[1]): return False
    if cr and not (cr[0] <= len(C) <= cr[1]): return False
    if gt is not None:
        r = Fraction(len(C), len(T)); hi = 1+Fraction(gt); lo = 1/hi
        if not (lo <= r <= hi): return False
    if vt is not None:
        r = sum(share[g] for g in C)/sum(share[g] for g in T)
        if not (1/(1+vt) <= r <= 1+vt): return False
    return True
