"""Engine B: explicit-state breadth-first search over real library objects.

A state is (live object, model).  A transition applies one operation of a finite alphabet to a deep copy of the
object (the implementation IS the transition function) and advances the reference model in lock-step.  States are
deduplicated by (canonical fingerprint of the object, model); the search runs until the frontier is empty (closure)
or a stated depth / state bound is hit (then closure_reached is False and the bound is reported).
"""
import collections
import copy


def explore(init_obj, init_model, ops, step, canon, check_state=None, max_depth=None, max_states=200000,
            clone=copy.deepcopy, sample_n=3, factory=None):
    """step(obj, model, op) -> (new_model, [ (key,msg) violations on this transition ], observation).

    Two ways to obtain the successor of a state:
      clone (default)  the live object is deep-copied and the operation applied to the copy;
      factory          stateless replay: factory() builds a FRESH real object and the whole history plus the new operation
                       is re-executed on it (no copying at all).  This is the faithful mode for objects whose behaviour
                       can depend on object identity (e.g. functools.lru_cache on methods is keyed by `self`, so a deep
                       copy silently gets a cold cache); check_state then receives a `rebuild` callable as 4th argument.
    """
    def rebuild(hist):
        obj, model = factory()
        for o in hist:
            model, _, _ = step(obj, model, o)
        return obj, model

    k0 = (canon(init_obj), init_model)
    seen = {k0: ()}
    frontier = collections.deque([(init_obj, init_model, ())])
    transitions = 0
    viol = []
    maxd = 0
    bound_hit = None
    observations = collections.Counter()
    samples = []
    while frontier:
        obj, model, hist = frontier.popleft()
        maxd = max(maxd, len(hist))
        if check_state is not None:
            res = check_state(obj, model, hist, rebuild) if factory is not None else check_state(obj, model, hist)
            for key, msg in res:
                viol.append({'key': key, 'msg': msg, 'hist': list(hist)})
        if max_depth is not None and len(hist) >= max_depth:
            bound_hit = 'max_depth=%d' % max_depth
            continue
        for op in ops:
            if factory is not None:
                o2, m_before = rebuild(hist)
            else:
                o2, m_before = clone(obj), model
            m2, vs, obs = step(o2, m_before, op)
            transitions += 1
            observations[(repr(op)[:40], repr(obs)[:80])] += 1
            h2 = hist + (op,)
            for key, msg in vs:
                viol.append({'key': key, 'msg': msg, 'hist': list(h2)})
            k2 = (canon(o2), m2)
            if k2 not in seen:
                if len(seen) >= max_states:
                    bound_hit = 'max_states=%d' % max_states
                    continue
                seen[k2] = h2
                frontier.append((o2, m2, h2))
                if len(samples) < sample_n and len(h2) >= 3 and len(seen) % 7 == 0:
                    samples.append(list(h2))
    viol.sort(key=lambda v: len(v['hist']))
    if not samples:
        samples = [list(h) for h in list(seen.values())[-sample_n:]]
    return {'states': len(seen), 'transitions': transitions, 'max_depth': maxd,
            'closure_reached': bound_hit is None, 'bound': bound_hit, 'violations': viol,
            'distinct_observations': len(observations), 'samples': samples}


# ----------------------------------------------------------------------------- parallel stateless-replay BFS
_PAR = None


def _expand(hist):
    ops, step, canon, factory = _PAR
    out = []
    for op in ops:
        obj, model = factory()
        for o in hist:
            model, _, _ = step(obj, model, o)
        m2, vs, obs = step(obj, model, op)
        out.append((op, canon(obj), m2, vs, repr(obs)[:80]))
    return hist, out


def explore_replay_parallel(ops, step, canon, factory, jobs=8, max_depth=None, max_states=500000, sample_n=3):
    """Level-synchronous BFS in stateless-replay mode, expansions distributed over a fork pool.

    Every state is represented by the shortest history that reaches it; a worker rebuilds the state by replaying that
    history on a FRESH real object (factory) and applies each operation of the alphabet (no object is ever copied).
    The parent deduplicates by (canon, model).  Runs to closure (no new state in a level) or to the stated bound."""
    import multiprocessing
    global _PAR
    _PAR = (ops, step, canon, factory)
    obj0, model0 = factory()
    seen = {(canon(obj0), model0): ()}
    level = [()]
    transitions = 0
    viol = []
    observations = collections.Counter()
    bound_hit = None
    depth = 0
    samples = []
    ctx = multiprocessing.get_context('fork')
    pool = ctx.Pool(jobs) if jobs > 1 else None
    try:
        while level:
            if max_depth is not None and depth >= max_depth:
                bound_hit = 'max_depth=%d' % max_depth
                break
            it = pool.imap(_expand, level, chunksize=max(1, len(level) // (jobs * 4))) if pool else map(_expand, level)
            nxt = []
            for hist, outs in it:
                for op, key, m2, vs, obs in outs:
                    transitions += 1
                    observations[(repr(op)[:40], obs)] += 1
                    h2 = hist + (op,)
                    for k, msg in vs:
                        viol.append({'key': k, 'msg': msg, 'hist': list(h2)})
                    k2 = (key, m2)
                    if k2 not in seen:
                        if len(seen) >= max_states:
                            bound_hit = 'max_states=%d' % max_states
                            continue
                        seen[k2] = h2
                        nxt.append(h2)
                        if len(samples) < sample_n and len(h2) >= 3 and len(seen) % 11 == 0:
                            samples.append(list(h2))
            level = nxt
            if level:
                depth += 1
    finally:
        if pool:
            pool.terminate()
            pool.join()
    viol.sort(key=lambda v: len(v['hist']))
    if not samples:
        samples = [list(h) for h in list(seen.values())[-sample_n:]]
    return {'states': len(seen), 'transitions': transitions, 'max_depth': depth,
            'closure_reached': bound_hit is None, 'bound': bound_hit, 'violations': viol,
            'distinct_observations': len(observations), 'samples': samples}
