"""Engine B: explicit-state breadth-first search over real library objects.

A state is (live object, model).  A transition applies one operation of a finite alphabet to a deep copy of the
object (the implementation IS the transition function) and advances the reference model in lock-step.  States are
deduplicated by (canonical fingerprint of the object, model); the search runs until the frontier is empty (closure)
or a stated depth / state bound is hit (then closure_reached is False and the bound is reported).
"""
import collections
import copy


def explore(init_obj, init_model, ops, step, canon, check_state=None, max_depth=None, max_states=200000,
            clone=copy.deepcopy, sample_n=3):
    """step(obj_copy, model, op) -> (new_model, [ (key,msg) violations on this transition ], observation)."""
    k0 = (canon(init_obj), init_model)
    seen = {k0: ()}
    frontier = collections.deque([(init_obj, init_model, ())])
    transitions = 0
    viol = []
    maxd = 0
    bound_hit = None
    observations = collections.Counter()
    samples = []
    while frontier:
        obj, model, hist = frontier.popleft()
        maxd = max(maxd, len(hist))
        if check_state is not None:
            for key, msg in check_state(obj, model, hist):
                viol.append({'key': key, 'msg': msg, 'hist': list(hist)})
        if max_depth is not None and len(hist) >= max_depth:
            bound_hit = 'max_depth=%d' % max_depth
            continue
        for op in ops:
            o2 = clone(obj)
            m2, vs, obs = step(o2, model, op)
            transitions += 1
            observations[(repr(op)[:40], repr(obs)[:80])] += 1
            h2 = hist + (op,)
            for key, msg in vs:
                viol.append({'key': key, 'msg': msg, 'hist': list(h2)})
            k2 = (canon(o2), m2)
            if k2 not in seen:
                if len(seen) >= max_states:
                    bound_hit = 'max_states=%d' % max_states
                    continue
                seen[k2] = h2
                frontier.append((o2, m2, h2))
                if len(samples) < sample_n and len(h2) >= 3 and len(seen) % 7 == 0:
                    samples.append(list(h2))
    viol.sort(key=lambda v: len(v['hist']))
    if not samples:
        samples = [list(h) for h in list(seen.values())[-sample_n:]]
    return {'states': len(seen), 'transitions': transitions, 'max_depth': maxd,
            'closure_reached': bound_hit is None, 'bound': bound_hit, 'violations': viol,
            'distinct_observations': len(observations), 'samples': samples}
