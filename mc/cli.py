"""./check <ID> [--tier quick|thorough] [--replay FILE]"""
import argparse
import importlib
import json
import os
import sys
import time

from mc import env
from mc import engine


def main():
    ap = argparse.ArgumentParser()
    ap.add_argument('prop')
    ap.add_argument('--tier', default=os.environ.get('VERIF_TIER', 'quick'), choices=['quick', 'thorough'])
    ap.add_argument('--replay', default=None)
    a = ap.parse_args()
    pid = a.prop.upper()
    mod = importlib.import_module('mc.props.' + pid.lower())
    if a.replay:
        body = json.load(open(a.replay))
        viols = mod.replay(body['case'])
        known = {k['key'] for k in engine.load_findings(pid)}
        bad = [v for v in viols if v['key'] not in known]
        for v in viols:
            print('%s key=%s %s' % ('KNOWN-FINDING:' if v['key'] in known else 'violation:', v['key'], v['msg'][:600]))
        if bad:
            print('VIOLATION property=%s replay=%s' % (pid, os.path.abspath(a.replay)))
            return 1
        print('OK property=%s (replayed case holds)' % pid)
        return 0
    t0 = time.time()
    res = mod.run(a.tier, env.SEED, env.JOBS)
    return engine.finish(mod, res, a.tier, env.SEED, time.time() - t0)


if __name__ == '__main__':
    try:
        rc = main()
    except SystemExit:
        raise
    except BaseException as e:   # a crash of the machinery is never a verdict
        import traceback
        traceback.print_exc()
        sys.stderr.write('HARNESS ERROR: %s: %s\n' % (type(e).__name__, e))
        rc = 2
    sys.exit(rc)
