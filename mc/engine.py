"""Common machinery: bounded-exhaustive case explorer (Engine A), evidence, known findings, replays.

A property module (mc/props/cNN.py) provides

  ID, LEVEL ('exploration' | 'model_checking'), RULE (str), ASSUMPTIONS (list of str)
  run(tier, seed, jobs) -> Result           the whole check
  replay(case) -> list of violation dicts   one case through the oracle, no explorer

Engine-A modules normally implement run() with explore_cases(); Engine-B modules with mc.bfs.
A violation is a dict {'key': <narrow finding class>, 'msg': <text>, 'case': <JSON-able case>}.
"""
import collections
import json
import multiprocessing
import os
import sys
import time
import traceback

from mc import env


class Result:
    def __init__(self):
        self.coverage = {}
        self.violations = []
        self.assumptions = []
        self.harness_errors = []


def _canon(obj):
    return json.dumps(obj, sort_keys=True, default=str)


# ----------------------------------------------------------------------------- worker side
_RUN_CASE = None


def _worker_init(modname, funcname):
    global _RUN_CASE
    import importlib
    mod = importlib.import_module(modname)
    _RUN_CASE = getattr(mod, funcname)


CASE_WALL_LIMIT_S = 900.0     # no single case of any check needs more than a few seconds; a case that is still running
                              # after this long is reported as "could not be judged" (exit 2) instead of hanging the check


class _CaseTimeout(BaseException):
    pass


def _on_alarm(signum, frm):
    raise _CaseTimeout()


def _worker(case):
    import signal
    env.reset_between_cases()
    t0 = time.process_time()
    old = signal.signal(signal.SIGALRM, _on_alarm)
    signal.setitimer(signal.ITIMER_REAL, CASE_WALL_LIMIT_S)
    try:
        out = _RUN_CASE(case)
    except _CaseTimeout:
        out = {'harness_error': 'case did not finish within %.0f s' % CASE_WALL_LIMIT_S}
    except Exception as e:  # an oracle crash is a harness error, never a verdict
        out = {'harness_error': '%s: %s\n%s' % (type(e).__name__, e, traceback.format_exc()[-1500:])}
    finally:
        signal.setitimer(signal.ITIMER_REAL, 0)
        signal.signal(signal.SIGALRM, old)
    out['cpu'] = time.process_time() - t0
    return out


def explore_cases(cases, modname, funcname='run_case', jobs=None, chunksize=None, sample_n=4,
                  describe=None):
    """Run every case (complete enumeration; order = simplest first) and aggregate.

    run_case(case) returns a dict with optional keys
      viol: [ {key,msg} ]         violations of the property on this case
      nontrivial: bool            non-trivial by the module's RULE
      outcome: hashable/str       coarse observed outcome (vacuity guard: distinct outcomes are counted)
      ambiguous: int              sub-observations excluded from strict claims (margin below tolerance)
      counts: {name: int}         additional counters summed over cases
    """
    jobs = jobs or env.JOBS
    cases = list(cases)
    n = len(cases)
    res = Result()
    t0 = time.time()
    outcomes = collections.Counter()
    counts = collections.Counter()
    nontrivial_keys = set()
    ambiguous = 0
    done = 0
    capped = False
    samples = []
    cpu_all = []
    if chunksize is None:
        chunksize = max(1, min(32, n // (jobs * 8) or 1))
    if jobs == 1 or n <= 2:
        _worker_init(modname, funcname)
        it = map(_worker, cases)
        pool = None
    else:
        ctx = multiprocessing.get_context('fork')
        pool = ctx.Pool(jobs, initializer=_worker_init, initargs=(modname, funcname))
        it = pool.imap(_worker, cases, chunksize=chunksize)
    try:
        for case, out in zip(cases, it):
            done += 1
            cpu_all.append(out.get('cpu', 0.0))
            if 'harness_error' in out:
                res.harness_errors.append({'case': case, 'error': out['harness_error']})
                continue
            for v in out.get('viol', ()):
                res.violations.append({'key': v['key'], 'msg': v.get('msg', ''), 'case': case})
            if out.get('nontrivial'):
                nontrivial_keys.add(_canon(case))
                if len(samples) < sample_n and (done % max(1, n // (sample_n + 1)) == 0 or len(samples) == 0):
                    samples.append({'case': case, 'outcome': out.get('outcome')})
            outcomes[_canon(out.get('outcome'))] += 1
            ambiguous += int(out.get('ambiguous', 0) or 0)
            for k, c in (out.get('counts') or {}).items():
                counts[k] += c
            if env.BUDGET_S and time.time() - t0 > env.BUDGET_S:
                capped = True
                break
    finally:
        if pool is not None:
            pool.terminate()
            pool.join()
    if not samples and cases:
        samples.append({'case': cases[0], 'outcome': None})
    res.coverage = {
        'evaluations': done,
        'distinct_nontrivial': len(nontrivial_keys),
        'samples': samples,
        'exhaustive': (not capped) and done == n,
        'cases_in_space': n,
        'distinct_outcomes': len(outcomes),
        'ambiguous_excluded': ambiguous,
        'counters': dict(counts),
        'cpu_s_total': round(sum(cpu_all), 2),
    }
    if capped:
        res.coverage['cap'] = 'VERIF_BUDGET_S=%s hit after %d of %d cases' % (env.BUDGET_S, done, n)
    return res


def merge(results, extra=None):
    """Merge the Results of several sub-spaces of one property."""
    out = Result()
    cov = {'evaluations': 0, 'distinct_nontrivial': 0, 'samples': [], 'exhaustive': True, 'cases_in_space': 0,
           'distinct_outcomes': 0, 'ambiguous_excluded': 0, 'counters': {}, 'parts': {}}
    for name, r in results:
        c = r.coverage
        cov['parts'][name] = {k: c.get(k) for k in ('evaluations', 'distinct_nontrivial', 'exhaustive',
                                                    'cases_in_space', 'distinct_outcomes', 'states', 'transitions',
                                                    'closure_reached', 'max_depth', 'cap') if k in c}
        for k in ('evaluations', 'distinct_nontrivial', 'cases_in_space', 'distinct_outcomes', 'ambiguous_excluded',
                  'states', 'transitions', 'traces_validated_against_impl'):
            if k in c:
                cov[k] = cov.get(k, 0) + (c[k] or 0)
        cov['samples'].extend(c.get('samples', [])[:3])
        cov['exhaustive'] = cov['exhaustive'] and bool(c.get('exhaustive', True))
        for k, v in (c.get('counters') or {}).items():
            cov['counters'][k] = cov['counters'].get(k, 0) + v
        out.violations.extend(r.violations)
        out.harness_errors.extend(r.harness_errors)
    if extra:
        cov.update(extra)
    out.coverage = cov
    return out


# ----------------------------------------------------------------------------- findings / evidence / replay
def load_findings(prop_id):
    path = os.path.join(env.VERIF_DIR, 'KNOWN_FINDINGS.txt')
    known = []
    if os.path.exists(path):
        for line in open(path):
            line = line.strip()
            if not line or line.startswith('#'):
                continue
            kind, _, rest = line.partition(':')
            if kind.strip() != 'known':
                continue  # 'fixed:' entries suppress nothing
            toks = rest.split()
            d = {}
            text = []
            for t in toks:
                if t.startswith('property=') and 'property' not in d:
                    d['property'] = t[9:]
                elif t.startswith('key=') and 'key' not in d:
                    d['key'] = t[4:]
                else:
                    text.append(t)
            d['text'] = ' '.join(text)
            if d.get('property') == prop_id and 'key' in d:
                known.append(d)
    return known


def validate_evidence(ev):
    schema_path = '/root/.vp/EVIDENCE.schema.json'
    if not os.path.exists(schema_path):
        schema_path = os.path.join(env.VERIF_DIR, 'schemas', 'EVIDENCE.schema.json')
    try:
        import jsonschema
        schema = json.load(open(schema_path))
        jsonschema.validate(ev, schema)
    except ImportError:
        for k in ('property_id', 'tier', 'seed', 'level', 'coverage', 'wall_s'):
            assert k in ev


def _jsonable(o):
    import numpy as np
    if isinstance(o, dict):
        return {str(k): _jsonable(v) for k, v in o.items()}
    if isinstance(o, (list, tuple, set, frozenset)):
        return [_jsonable(v) for v in (sorted(o, key=repr) if isinstance(o, (set, frozenset)) else o)]
    if isinstance(o, (np.integer,)):
        return int(o)
    if isinstance(o, (np.floating,)):
        return float(o)
    if isinstance(o, (np.bool_,)):
        return bool(o)
    if isinstance(o, np.ndarray):
        return [_jsonable(v) for v in o.tolist()]
    if isinstance(o, float) and (o != o or o in (float('inf'), float('-inf'))):
        return repr(o)
    if o is None or isinstance(o, (str, int, float, bool)):
        return o
    return repr(o)


def write_replay(prop_id, idx, viol, module):
    d = os.path.join(env.VERIF_DIR, 'replays', prop_id)
    os.makedirs(d, exist_ok=True)
    path = os.path.join(d, 'case_%03d.json' % idx)
    body = {'property': prop_id, 'key': viol['key'], 'msg': viol['msg'], 'case': viol['case']}
    explain = getattr(module, 'explain', None)
    if explain is not None:
        try:
            body['explicit'] = explain(viol['case'])
        except Exception as e:  # explanation is a convenience only
            body['explicit'] = 'explain failed: %r' % (e,)
    body['how_to_replay'] = './check %s --replay %s' % (prop_id, path)
    with open(path, 'w') as f:
        json.dump(_jsonable(body), f, indent=1)
    return path


def finish(module, res, tier, seed, wall):
    """Apply known findings, write evidence and replays, print the verdict lines, return the exit code."""
    pid = module.ID
    known = load_findings(pid)
    known_keys = {k['key']: k for k in known}
    matched = collections.Counter()
    fresh = []
    for v in res.violations:
        if v['key'] in known_keys:
            matched[v['key']] += 1
        else:
            fresh.append(v)
    # clear old replays of this property
    rd = os.path.join(env.VERIF_DIR, 'replays', pid)
    if os.path.isdir(rd):
        for f in os.listdir(rd):
            if f.startswith('case_'):
                os.unlink(os.path.join(rd, f))
    cov = dict(res.coverage)
    cov.setdefault('rule', module.RULE)
    cov['known_findings_matched'] = dict(matched)
    cov['violation_keys'] = dict(collections.Counter(v['key'] for v in fresh))
    level = module.LEVEL
    if level == 'model_checking':
        cov.setdefault('traces_validated_against_impl', cov.get('transitions', 0))
    ev = {
        'property_id': pid, 'tier': tier, 'seed': seed, 'level': level,
        'coverage': _jsonable(cov),
        'assumptions': list(getattr(module, 'ASSUMPTIONS', [])) + list(res.assumptions),
        'wall_s': round(wall, 2),
        'violations': len(fresh),
    }
    ev['coverage']['library_tree'] = env.REPO
    try:
        validate_evidence(ev)
    except Exception as e:
        sys.stderr.write('WARNING: evidence does not validate: %s\n' % (str(e)[:300],))
        # still write it, so the problem can be inspected; a harness error only if there is no verdict to report
        if not fresh:
            res.harness_errors.append({'error': 'evidence schema: %s' % (str(e)[:300],)})
    os.makedirs(os.path.join(env.VERIF_DIR, 'evidence'), exist_ok=True)
    with open(os.path.join(env.VERIF_DIR, 'evidence', pid + '.json'), 'w') as f:
        json.dump(ev, f, indent=1)
    c = res.coverage
    summary = ' '.join('%s=%s' % (k, c[k]) for k in ('evaluations', 'distinct_nontrivial', 'states', 'transitions',
                                                   'distinct_outcomes', 'ambiguous_excluded', 'exhaustive')
                       if k in c)
    print('%s tier=%s seed=%d %s wall=%.1fs' % (pid, tier, seed, summary, wall))
    for k in known:
        print('KNOWN-FINDING: property=%s key=%s %s (matched %d case(s) in this run)' % (
            pid, k['key'], k['text'], matched.get(k['key'], 0)))
    if res.harness_errors and not fresh:
        for h in res.harness_errors[:5]:
            sys.stderr.write('HARNESS ERROR: %s\n' % (json.dumps(_jsonable(h))[:3000],))
        return 2
    if fresh and res.harness_errors:
        sys.stderr.write('NOTE: %d case(s) could not be judged (oracle error, e.g. %s)\n' % (
            len(res.harness_errors), json.dumps(_jsonable(res.harness_errors[0]))[:400]))
    if fresh:
        # one replay per distinct key, smallest (= earliest enumerated) first; cap the number of files
        seen = {}
        for v in fresh:
            seen.setdefault(v['key'], v)
        paths = []
        for i, (key, v) in enumerate(list(seen.items())[:20]):
            paths.append((key, write_replay(pid, i, v, module), v))
        for key, p, v in paths:
            n = sum(1 for x in fresh if x['key'] == key)
            print('VIOLATION property=%s replay=%s' % (pid, p))
            print('  detail: key=%s cases=%d msg=%s' % (key, n, v['msg'][:400]))
        return 1
    print('OK property=%s' % pid)
    return 0
