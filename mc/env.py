"""Environment: import the library from VERIF_REPO (default /repo) and pin the sources of nondeterminism."""
import os
import sys
import warnings

for _v in ('OMP_NUM_THREADS', 'OPENBLAS_NUM_THREADS', 'MKL_NUM_THREADS', 'NUMEXPR_NUM_THREADS'):
    os.environ.setdefault(_v, '1')
os.environ.setdefault('MPLBACKEND', 'Agg')
warnings.filterwarnings('ignore')

VERIF_DIR = os.path.dirname(os.path.dirname(os.path.abspath(__file__)))
REPO = os.path.realpath(os.environ.get('VERIF_REPO', '/repo'))
if REPO not in sys.path:
    sys.path.insert(0, REPO)

import matched_markets  # noqa: E402

_f = os.path.realpath(matched_markets.__file__)
if not _f.startswith(REPO + os.sep):
    sys.stderr.write('HARNESS ERROR: matched_markets imported from %s, not from %s\n' % (_f, REPO))
    sys.exit(2)

JOBS = int(os.environ.get('VERIF_JOBS', '0') or 0) or (os.cpu_count() or 4)
SEED = int(os.environ.get('VERIF_SEED', '0') or 0)
BUDGET_S = float(os.environ.get('VERIF_BUDGET_S', '0') or 0)


def reset_between_cases():
    """Called by workers before every case: reseed the global RNG, drop process-wide lru caches."""
    import numpy as np
    warnings.simplefilter('ignore')
    np.random.seed(12345)
    from matched_markets.methodology import tbrmmdiagnostics as _d
    for name in ('_brownian_bridge_bounds', '_impact_estimate'):
        f = getattr(_d.TBRMMDiagnostics, name, None)
        if f is not None and hasattr(f, 'cache_clear'):
            f.cache_clear()
