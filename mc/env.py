"""Environment: import the library from VERIF_REPO (default /repo) and pin the sources of nondeterminism."""
import os
import sys
import warnings

for _v in ('OMP_NUM_THREADS', 'OPENBLAS_NUM_THREADS', 'MKL_NUM_THREADS', 'NUMEXPR_NUM_THREADS'):
    os.environ.setdefault(_v, '1')
os.environ.setdefault('MPLBACKEND', 'Agg')
warnings.filterwarnings('ignore')

VERIF_DIR = os.path.dirname(os.path.dirname(os.path.abspath(__file__)))
REPO = os.path.realpath(os.environ.get('VERIF_REPO', '/repo'))
if REPO not in sys.path:
    sys.path.insert(0, REPO)

import matched_markets  # noqa: E402

_f = os.path.realpath(matched_markets.__file__)
if not _f.startswith(REPO + os.sep):
    sys.stderr.write('HARNESS ERROR: matched_markets imported from %s, not from %s\n' % (_f, REPO))
    sys.exit(2)

JOBS = int(os.environ.get('VERIF_JOBS', '0') or 0) or (os.cpu_count() or 4)
SEED = int(os.environ.get('VERIF_SEED', '0') or 0)
BUDGET_S = float(os.environ.get('VERIF_BUDGET_S', '0') or 0)


def reset_between_cases():
    """Called by workers before every case: reseed the global RNG, drop process-wide lru caches."""
    import numpy as np
    warnings.simplefilter('ignore')
    np.random.seed(12345)
    for f in library_caches():
        f.cache_clear()


_CACHES = None


def library_caches():
    """Every functools cache (lru_cache / cache) defined at module or class level anywhere in the library: process-wide
    hidden state.  Cleared between cases so that one case cannot influence another; checks that want to SEE such state
    run explicit multi-call histories inside one case."""
    global _CACHES
    if _CACHES is None:
        import importlib
        import inspect
        import pkgutil
        found = []
        import matched_markets.methodology as pkg
        for mi in pkgutil.iter_modules(pkg.__path__):
            if 'test' in mi.name:
                continue
            try:
                mod = importlib.import_module('matched_markets.methodology.' + mi.name)
            except Exception:
                continue
            for _, obj in vars(mod).items():
                if hasattr(obj, 'cache_clear') and hasattr(obj, 'cache_info'):
                    found.append(obj)
                elif inspect.isclass(obj) and getattr(obj, '__module__', '') == mod.__name__:
                    for _, m in vars(obj).items():
                        m = getattr(m, 'fget', m)
                        if hasattr(m, 'cache_clear') and hasattr(m, 'cache_info'):
                            found.append(m)
        _CACHES = found
    return _CACHES
