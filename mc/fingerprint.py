"""Canonical fingerprint of a live object graph: every instance attribute, arrays and frames byte-exact.

Over-fine on purpose: two states are merged only if the complete object state is identical, so merging can never
lose a future.  Sets are sorted (their iteration order is not state), lists keep their order (heap layout is state).
"""
import numpy as np
import pandas as pd


def fp(v, _depth=0):
    if _depth > 40:
        return ('deep',)
    if v is None or isinstance(v, (str, bool, int)):
        return v
    if isinstance(v, (float, np.floating)):
        return ('f', repr(float(v)))
    if isinstance(v, np.integer):
        return int(v)
    if isinstance(v, np.bool_):
        return bool(v)
    if isinstance(v, np.ndarray):
        return ('arr', str(v.dtype), v.shape, v.tobytes() if v.dtype != object else tuple(fp(x, _depth + 1) for x in v.ravel()))
    if isinstance(v, pd.DataFrame):
        return ('df', tuple(map(str, v.index)), tuple(map(str, v.columns)),
                tuple(fp(v[c].to_numpy(), _depth + 1) for c in v.columns))
    if isinstance(v, pd.Series):
        return ('ser', tuple(map(str, v.index)), fp(v.to_numpy(), _depth + 1))
    if isinstance(v, (set, frozenset)):
        return ('set', tuple(sorted((fp(x, _depth + 1) for x in v), key=repr)))
    if isinstance(v, (list, tuple, range)):
        return (type(v).__name__, tuple(fp(x, _depth + 1) for x in v))
    if isinstance(v, dict):
        return ('dict', tuple(sorted(((fp(k, _depth + 1), fp(x, _depth + 1)) for k, x in v.items()), key=repr)))
    if hasattr(v, '__dict__') and type(v).__module__.split('.')[0] in ('matched_markets', 'mc'):
        return (type(v).__name__, tuple((k, fp(x, _depth + 1)) for k, x in sorted(vars(v).items())))
    return ('repr', repr(v))
