"""Experiment frames for the post-analysis checks (C05-C07, C18, C19).

A frame is described by per-date control / treatment totals and a period label per date; build() lays it out as a
long data frame (geos per group, unassigned geos / periods, row order, column names).  Totals are multiples of 4 and the
geo split uses dyadic fractions, so per-date group totals are exact in floating point for every layout.
"""
import datetime

import numpy as np
import pandas as pd

START = datetime.date(2020, 1, 1)
SPLITS = {1: [1.0], 2: [0.25, 0.75], 3: [0.5, 0.25, 0.25]}


def lcg_noise(seed, n, lo, hi):
    from mc.panels import _noise
    return _noise(seed, n, lo, hi)


SHAPES = ['ramp', 'step', 'vee', 'zigzag', 'walk']


def shape(name, n, seed=0):
    t = np.arange(n, dtype=float)
    if name == 'ramp':
        base = 40 + 3 * t
    elif name == 'step':
        base = 40 + 2 * t + 12 * (t >= n // 2)
    elif name == 'vee':
        base = 60 + 4 * np.abs(t - n // 2)
    elif name == 'zigzag':
        base = 50 + 2 * t + 6 * (t % 2)
    elif name == 'walk':
        steps = np.array(lcg_noise(seed + 41, n, -3, 4), float)
        base = 50 + np.cumsum(steps)
    else:
        raise KeyError(name)
    return base


def series(spec):
    """spec -> (x, y, periods): control totals, treatment totals (multiples of 4), period labels."""
    npre, ntest, ncool = spec['npre'], spec['ntest'], spec.get('ncool', 0)
    n = npre + ntest + ncool
    x = shape(spec['shape'], n, spec.get('seed', 0)) + np.array(lcg_noise(7 * spec.get('seed', 0) + 1, n, 0, 3), float)
    e = np.array(lcg_noise(13 * spec.get('seed', 0) + spec.get('noise', 0) + 2, n, -2, 2), float)
    y = 2 * x + 5 + spec.get('noise_amp', 1) * e
    y[npre:npre + ntest] += spec.get('lift', 6)
    if spec.get('swing'):
        x[npre] += spec['swing']
        if ntest + ncool > 1:
            x[npre + 1] -= spec['swing']
    periods = [0] * npre + [1] * ntest + [2] * ncool
    return 4 * x, 4 * y, periods


def build(x, y, periods, gc=1, gt=1, cost_c=None, cost_t=None, extra_geo=False, extra_dates=None, order='sorted',
          names=None, labels=None, start=START, period_labels=None):
    """Long frame.  extra_dates: list of (where, period_label) with where in {'lead','gap','trail'}."""
    names = dict({'date': 'date', 'geo': 'geo', 'group': 'group', 'period': 'period', 'response': 'response', 'cost': 'cost'},
                 **(names or {}))
    labels = dict({'control': 1, 'treatment': 2, 'unassigned': -1}, **(labels or {}))
    n = len(x)
    seq = [(periods[i], float(x[i]), float(y[i]),
            None if cost_c is None else float(cost_c[i]), None if cost_t is None else float(cost_t[i])) for i in range(n)]
    for where, lab in (extra_dates or []):
        item = (lab, 8.0, 20.0, None if cost_c is None else 0.0, None if cost_t is None else 0.0)
        if where == 'lead':
            seq = [item, item] + seq
        elif where == 'trail':
            seq = seq + [item, item]
        else:   # a gap day between pre-period and test
            k = sum(1 for p in periods if p == 0)
            k += sum(1 for w, _ in (extra_dates or []) if w == 'lead') * 2
            seq = seq[:k] + [item] + seq[k:]
    rows = []
    for i, (per, xv, yv, cc, ct) in enumerate(seq):
        if period_labels is not None:
            per = period_labels.get(per, per)
        date = pd.Timestamp(start + datetime.timedelta(days=i))
        for g, f in enumerate(SPLITS[gc]):
            r = {names['date']: date, names['geo']: 10 + g, names['group']: labels['control'], names['period']: per,
                 names['response']: xv * f}
            if cc is not None:
                r[names['cost']] = cc * f
            rows.append(r)
        for g, f in enumerate(SPLITS[gt]):
            r = {names['date']: date, names['geo']: 20 + g, names['group']: labels['treatment'], names['period']: per,
                 names['response']: yv * f}
            if ct is not None:
                r[names['cost']] = ct * f
            rows.append(r)
        if extra_geo:
            r = {names['date']: date, names['geo']: 30, names['group']: labels['unassigned'], names['period']: per,
                 names['response']: 7.0 + i}
            if cc is not None:
                r[names['cost']] = 3.0
            rows.append(r)
    if order == 'reversed':
        rows = rows[::-1]
    elif order == 'mixed':
        rows = rows[1::2] + rows[0::2]
    df = pd.DataFrame(rows)
    return df.set_index(names['geo'])
