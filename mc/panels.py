"""Fixed response panels (the value alphabet).  Integer-valued so that sums over geos are exact in floating point.

A panel is described by a small JSON-able dict {'name','G','T','seed','variant'}; rows() expands it to explicit
long-format rows [(iso date, geo int, value float)].  Nothing here uses the library or numpy's RNG (an LCG keeps the
alphabet independent of library versions).
"""
import datetime

START = datetime.date(2020, 3, 1)


def _lcg(seed):
    s = (seed * 2654435761 + 97) & 0x7fffffff
    while True:
        s = (s * 1103515245 + 12345) & 0x7fffffff
        yield s >> 16


def _noise(seed, n, lo, hi):
    g = _lcg(seed)
    return [lo + next(g) % (hi - lo + 1) for _ in range(n)]


def values(name, G, T, seed=0):
    """-> {geo: [T integer values]}"""
    out = {}
    if name == 'E':      # panel B with geo 2 an exact copy of geo 1 (one market reported as two equal halves): exact ties
        out = values('B', G, T, seed)
        out[2] = list(out[1])
        return out
    if name == 'A':      # common linear trend with small idiosyncratic noise; geo g about (g+1) times geo 0
        for g in range(G):
            nz = _noise(101 * seed + g + 1, T, 0, 9)
            out[g] = [float((g + 1) * 10 + (g + 1) * d + nz[d]) for d in range(T)]
    elif name == 'B':    # common random walk; dominant geo 0, noisy geo 2, near-proportional pair (0, 1)
        w = [16, 4, 3, 2, 1, 5, 2]
        amp = [2, 1, 14, 3, 2, 4, 9]
        steps = _noise(7 + seed, T, -3, 4)
        common, c = [], 20
        for d in range(T):
            c = max(4, c + steps[d])
            common.append(c)
        for g in range(G):
            nz = _noise(977 * seed + 31 * g + 5, T, 0, amp[g % len(amp)])
            # geo 3 has a level shift half-way (structural break: makes the Brownian-bridge test fail for some designs)
            out[g] = [float(w[g % len(w)] * common[d] + nz[d] + (24 if (g == 3 and d >= T // 2) else 0)) for d in range(T)]
    elif name == 'D':    # share DRIFT: geo 1 sold much more in the first half, so shares over ALL dates differ from the
        # shares seen in a short recent window (volume / share constraints are documented on all supplied dates)
        w = [6, 5, 3, 2, 4, 1]
        amp = [2, 3, 2, 9, 3, 2]
        steps = _noise(23 + seed, T, -3, 4)
        common, c = [], 18
        for d in range(T):
            c = max(4, c + steps[d])
            common.append(c)
        for g in range(G):
            nz = _noise(613 * seed + 17 * g + 3, T, 0, amp[g % len(amp)])
            out[g] = [float(w[g % len(w)] * common[d] + nz[d] + (150 - 20 * d if (g == 1 and d < T // 2) else 0)
                            + (40 if (g == 2 and d >= T // 2) else 0)) for d in range(T)]
    elif name == 'W':    # WEAKLY correlated geos: a small common component under large idiosyncratic noise, so that many designs
        # fail the correlation test and are ranked by their other verdicts (seed selects one of several fixed panels)
        steps = _noise(41 + 7 * seed, T, -2, 3)
        common, c = [], 30
        for d in range(T):
            c = max(6, c + steps[d])
            common.append(c)
        for g in range(G):
            nz = _noise(733 * seed + 29 * g + 11, T, 0, 14 + 3 * g)
            drift = [(d * (g % 3)) // 2 for d in range(T)]
            out[g] = [float((3 - g % 2) * common[d] + nz[d] + drift[d]) for d in range(T)]
    elif name == 'V':    # VERDICT-diverse: geos with a level shift, a slow wave, a late break and heavy noise, so that designs fail
        # DIFFERENT subsets of the four diagnostic tests (flag tuples whose lexicographic order differs from their pass count)
        steps = _noise(59 + 5 * seed, T, -2, 3)
        common, c = [], 30
        for d in range(T):
            c = max(6, c + steps[d])
            common.append(c)
        for g in range(G):
            nz = _noise(389 * seed + 23 * g + 7, T, 0, 3 + 4 * (g % 3))
            kind = (g + seed) % 4
            extra = [0] * T
            if kind == 0:
                extra = [18 if d >= T // 2 else 0 for d in range(T)]                    # level shift
            elif kind == 1:
                extra = [int(9 * ((d // 3) % 2)) for d in range(T)]                     # slow square wave (autocorrelated)
            elif kind == 2:
                extra = [14 if d >= T - 4 else 0 for d in range(T)]                     # late break (inside the A/A window)
            out[g] = [float((2 + g % 2) * common[d] + nz[d] + extra[d]) for d in range(T)]
    elif name == 'C':    # seed-derived panel (VERIF_SEED != 0): random walk with random weights
        ws = _noise(seed + 3, G, 1, 9)
        steps = _noise(seed + 11, T, -4, 5)
        common, c = [], 30
        for d in range(T):
            c = max(5, c + steps[d])
            common.append(c)
        for g in range(G):
            nz = _noise(seed * 13 + g + 17, T, 0, 3 + 2 * g)
            out[g] = [float((ws[g] + g) * common[d] + nz[d] + g) for d in range(T)]
    else:
        raise KeyError(name)
    return out


def rows(p):
    """Explicit long-format rows of a panel description, in the presentation order of its variant."""
    G, T = p['G'], p['T']
    vals = values(p['name'], G, T, p.get('seed', 0))
    if p.get('scale_pow'):      # responses in another unit: every value times 2^k (exact in floating point)
        f = 2.0 ** p['scale_pow']
        vals = {g: [v * f for v in vs] for g, vs in vals.items()}
    dates = [(START + datetime.timedelta(days=d)).isoformat() for d in range(T)]
    variant = p.get('variant', 'plain')
    if variant in ('flatlast', 'zerolast'):     # the last geo has NO variation in its response (a flat volume / no response)
        vals[G - 1] = [25.0 if variant == 'flatlast' else 0.0] * T
    out = []
    for d in range(T):
        for g in range(G):
            if variant == 'missing' and (g, d) == (G - 1, 1):
                continue  # one missing (geo, date) cell -> zero fill
            if variant == 'dup' and (g + d) % 3 == 0:
                # two reporting lines for the same (geo, date): the documented pivot averages them (v-3, v+3 -> v)
                out.append((dates[d], g, vals[g][d] - 3.0))
                out.append((dates[d], g, vals[g][d] + 3.0))
                continue
            out.append((dates[d], g, vals[g][d]))
    if variant == 'shuffled':
        out = out[::-1]
        out = out[1::2] + out[0::2]
    return out


def describe(p):
    return {'panel': p, 'rows': rows(p)}
