"""C01 - returned designs are legal assignments under the geo eligibility matrix."""
from mc import engine, spaces, searchcore as sc

ID = 'C01'
LEVEL = 'exploration'
INCLUDE = spaces.C02_SIX + ['n_geos_max', 'n_pretest_max', 'n_designs']
RULE = ('Engine A: complete enumeration of FULL(G<=3) (every eligibility matrix over 7 row types + absent row, x '
        'constraint subsets x n_geos_max) and DEV(4,d)/DEV(5,2) (<= d deviations incl. no matrix / extra matrix geo) '
        'for both searches; REUSE: DEV(4,1|2) on a data object already used by another matched-markets object; FLAT: a geo without any variation in its response (flat / all zero) under every row type x DEV(4,1); every returned design judged from the RAW eligibility rows: non-empty disjoint groups of '
        'data geos, t/c eligibility, every exclude=0 geo placed, must-exclude/absent geos never used; plus the '
        'documented rule for geos_within_constraints. Non-trivial = >= 1 design returned and (>= 1 non-free row or '
        'admitted set smaller than the data); distinct = distinct case.')
ASSUMPTIONS = ['values: fixed integer panels A/B (+ seed panel)',
               'with n_geos_max the oracle only requires: must-include geos kept, size <= max(n_geos_max, #must), '
               'optional places filled by highest single-geo impact (documented rule), not a particular tie-break']


def cases(tier, seed):
    out = spaces.family_space(tier, seed, INCLUDE, {'n_designs': 3}, k_values=(1, 50))
    out += spaces.reuse_space({'name': 'B', 'G': 4, 'T': 12}, INCLUDE, {'n_designs': 3}, d=2 if tier == 'thorough' else 1)
    out += spaces.reuse2_space({'name': 'B', 'G': 4, 'T': 12}, {'n_designs': 3})
    # a geo WITHOUT variation in its response (flat volume / all zeros) under every row type, plus one further deviation
    for variant in ('flatlast', 'zerolast'):
        p = {'name': 'B', 'G': 4, 'T': 12, 'variant': variant}
        for r in spaces.ROW_ALTS + [(1, 1, 1)]:
            if r is None:
                continue
            for c in spaces.with_methods(spaces.dev_configs(p, 1, INCLUDE, base_kw={'n_designs': 3}, k_values=(50,), with_matrix_level=False)):
                if c['rows'][3] == [1, 1, 1] and spaces.precondition_ok(c):
                    rows = [(list(x) if x is not None else None) for x in c['rows']]
                    rows[3] = list(r)
                    out.append(dict(c, rows=rows, deviations=c['deviations'] + 2))
    return out


def run_case(case):
    obs = sc.observe(case)
    ref = sc.Ref(case)
    viol = sc.oracle_legal(case, ref, obs)
    v2, amb = sc.oracle_admitted(case, ref, obs)
    viol += v2
    nd = len(obs['designs'] or ())
    nonfree = case.get('nomatrix') is not True and any(r != [1, 1, 1] for r in case['rows'])
    smaller = obs['admitted'] is not None and len(obs['admitted']) < ref.G
    outcome = [obs['exc']['type'] if obs['exc'] else 'ok', min(nd, 3), len(obs['admitted'] or ())]
    return {'viol': viol, 'nontrivial': nd >= 1 and (nonfree or smaller), 'outcome': outcome, 'ambiguous': amb,
            'counts': {'designs_checked': nd, 'searches_raising': 1 if obs['exc'] else 0}}


def run(tier, seed, jobs):
    return engine.explore_cases(cases(tier, seed), 'mc.props.c01', jobs=jobs)


def replay(case):
    return run_case(case)['viol']


explain = sc.explain
