"""C02 - returned designs satisfy every user-specified numeric constraint (inclusive integer bounds)."""
from mc import engine, spaces, searchcore as sc

ID = 'C02'
LEVEL = 'exploration'
INCLUDE = spaces.C02_SIX + ['n_geos_max', 'n_pretest_max', 'iroas', 'rho_max']
RULE = ('Engine A: same FULL/DEV spaces as C01 (every subset of the six constraints occurs in FULL; DEV adds the whole '
        'value alphabets incl. sizes 1,2,G,G+1 and tolerances 0.5,1,2 so that designs sit exactly on size/ratio '
        'bounds). Oracle recomputes from raw data: sizes and geo ratio in exact rational arithmetic, volume ratio, '
        'share under either documented reading, budget = closed-form required impact / iroas. Completeness '
        'THRESH: budget / share / volume bounds placed between every two consecutive critical values of the panel '
        '(all subset optimistic impacts and design impacts, also / iroas, rho_max 0.9); the same for share / volume on a share-DRIFT panel with n_pretest_max = T/2 (bounds between the all-dates and the windowed critical values). REUSE: share / volume thresholds and DEV(4,1) on a data object that already served another matched-markets object admitting a different geo set. FLAT: a panel with a geo without variation (designs with undefined score must still be returned when k >= |feasible|). Completeness sub-check (inclusiveness of bounds): with no budget range and n_designs >= |feasible set| the exhaustive '
        'result must contain every reference-feasible design. Non-trivial = a constraint is specified and at least '
        'one legal design of the reference space violates it; distinct = distinct case.')
ASSUMPTIONS = ['values: fixed integer panels; continuous bounds judged with 1e-9 relative slack, integer bounds exactly',
               'treatment share accepted under either reading (vs all data geos / vs admitted geos)']


def cases(tier, seed):
    out = spaces.family_space(tier, seed, INCLUDE, {'n_designs': 100}, k_values=())
    # bounds between every two consecutive critical values (budget incl. iroas / rho_max variants, share, volume)
    out += spaces.threshold_space({'name': 'B', 'G': 4, 'T': 12}, base_kw={'n_designs': 100},
                                  rho_values=(0.995, 0.9) if tier == 'thorough' else (0.9,))
    # share DRIFT panel with a short analysis window: share / volume bounds between every two critical values of the
    # documented reading (all supplied dates) AND of the windowed reading, so the two can be told apart
    out += spaces.threshold_space({'name': 'D', 'G': 4, 'T': 12}, base_kw={'n_designs': 100, 'n_pretest_max': 6},
                                  parts=('share', 'volume'))
    # REUSE: the share / volume thresholds again on a data object that ALREADY served another matched-markets object which
    # admitted a different geo set (positional geo indices mean something else there) and evaluated shares under its index
    pB4 = {'name': 'B', 'G': 4, 'T': 12}
    for c in spaces.threshold_space(pB4, base_kw={'n_designs': 100}, parts=('share', 'volume')):
        for pr in (spaces.PRIORS[2], spaces.PRIORS[0], {'kw': {'n_geos_max': 3, 'volume_ratio_tolerance': 4.0, 'n_designs': 2}, 'op': 'exhaustive_search'}):
            out.append(dict(c, prior=pr, deviations=c['deviations'] + 1))
    out += spaces.reuse_space(pB4, ['volume_ratio_tolerance', 'treatment_share_range', 'n_geos_max', 'budget_range'], {'n_designs': 100}, d=1)
    # a geo WITHOUT variation (flat / all zero): designs built on it have an undefined correlation and score, but they are
    # legal and within every constraint, so with n_designs >= |feasible set| they must all be returned (completeness)
    for variant in ('flatlast', 'zerolast'):
        pf = {'name': 'B', 'G': 4, 'T': 12, 'variant': variant}
        for c in spaces.with_methods(spaces.dev_configs(pf, 1, ['treatment_geos_range', 'control_geos_range', 'geo_ratio_tolerance',
                                                               'volume_ratio_tolerance', 'n_pretest_max'], base_kw={'n_designs': 100},
                                                        k_values=(), with_matrix_level=False), ('exhaustive_search',)):
            if spaces.precondition_ok(c):
                out.append(dict(c, deviations=c['deviations'] + 1))
    if tier == 'thorough':
        out += spaces.threshold_space({'name': 'D', 'G': 5, 'T': 14}, base_kw={'n_designs': 100, 'n_pretest_max': 7},
                                      parts=('share', 'volume'))
        out += spaces.threshold_space({'name': 'A', 'G': 3, 'T': 12}, base_kw={'n_designs': 100}, rho_values=(0.995, 0.9))
    return out


def run_case(case):
    obs = sc.observe(case)
    ref = sc.Ref(case)
    viol = sc.oracle_constraints(case, ref, obs)
    nd = len(obs['designs'] or ())
    nontrivial = False
    on_bound = 0
    specified = [k for k in spaces.C02_SIX if k in case['kw']]
    if obs['admitted'] is not None and obs['stage'] != 'data':
        adm = [g for g in obs['admitted'] if g in ref.rowd]
        from mc.ref import elig as relig
        legal = list(relig.legal_designs(ref.rowd, adm))
        F_any, F_must, _ = ref.feasible_sets(adm, with_exemption=False)
        nontrivial = bool(specified) and len(F_any) < len(legal)
        if (case['method'] == 'exhaustive_search' and 'budget_range' not in case['kw'] and obs['exc'] is None
                and case['kw'].get('n_designs', 1) >= len(F_any)):
            got = {(frozenset(d['T']), frozenset(d['C'])) for d in obs['designs']}
            missing = sorted(F_must - got, key=sc._dkey)
            if missing:
                viol.append({'key': 'C02:exhaustive:feasible-design-omitted',
                             'msg': 'n_designs=%d >= |feasible|=%d, no budget range, but %d feasible designs are not '
                                    'returned, e.g. %s (sizes %d/%d; constraints %s)' % (
                                        case['kw'].get('n_designs', 1), len(F_any), len(missing), sc._fmt(missing[0]),
                                        len(missing[0][0]), len(missing[0][1]), {k: case['kw'][k] for k in specified})})
        tr, cr = case['kw'].get('treatment_geos_range'), case['kw'].get('control_geos_range')
        for d in obs['designs'] or ():
            if (tr and len(d['T']) in tr) or (cr and len(d['C']) in cr):
                on_bound += 1
    outcome = [obs['exc']['type'] if obs['exc'] else 'ok', min(nd, 3), len(specified)]
    return {'viol': viol, 'nontrivial': nontrivial, 'outcome': outcome,
            'counts': {'designs_checked': nd, 'designs_on_a_size_bound': on_bound}}


def run(tier, seed, jobs):
    return engine.explore_cases(cases(tier, seed), 'mc.props.c02', jobs=jobs)


def replay(case):
    return run_case(case)['viol']


explain = sc.explain
