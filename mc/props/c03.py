"""C03 - exhaustive search returns the best-scoring feasible designs, best first."""
from mc import engine, spaces, searchcore as sc

ID = 'C03'
LEVEL = 'exploration'
INCLUDE = spaces.C02_SIX + ['n_geos_max', 'n_pretest_max', 'n_designs', 'rho_max', 'iroas', 'min_corr']
RULE = ('Engine A: FULL/DEV configuration spaces x n_designs in {1,2,5,50}; per input an independent brute-force '
        'enumeration of ALL legal designs over the admitted geos (itertools.product over per-geo options), constraints '
        'from raw data, score tuple composed by the oracle from fresh library diagnostics on reference series. '
        'THRESH: budget/share/volume bounds between every two consecutive critical values; REUSE: the same configurations '
        'on a data object that already served another matched-markets object; FLAT: a geo without variation with k >= |feasible| (membership and count only); SHARE-ORDER: share thresholds on a panel where lexicographic group order is not share order; WEAK: weakly correlated panels x min_corr in {0.8,0.95,0.999} x k (designs that fail the correlation test compete on their other verdicts); UNITS: DEV(4,1) on the panel scaled by 2^20 and 2^-20. Asserted: result subset of feasible set, distinct, |R| >= min(k,|F_must|), no non-exempt feasible design '
        'outside R scores higher than the worst of R, non-increasing order. Exemption read generously (any subset '
        'S of T containing the fixed treatment geos with optimistic budget outside the range). Non-trivial = '
        '|F_must| > k (something had to be left out); distinct = distinct case.')
ASSUMPTIONS = ['feasible designs are drawn from the geos admitted by geos_within_constraints (scope S4; C01 checks that set)',
               'definitions of the four diagnostic tests are taken from fresh library objects (not re-implemented)',
               'values: fixed integer panels; score ties within 1e-9 accept any order']


def cases(tier, seed):
    out = spaces.family_space(tier, seed, INCLUDE, {'n_designs': 2}, methods=('exhaustive_search',),
                              k_values=(1, 5, 50), T=14,
                              full3_subsets=((), ('budget_range',), ('treatment_share_range', 'budget_range'),
                                             ('volume_ratio_tolerance', 'geo_ratio_tolerance'),
                                             ('treatment_geos_range', 'budget_range')))
    pB4 = {'name': 'B', 'G': 4, 'T': 14}
    out += spaces.threshold_space(pB4, methods=('exhaustive_search',), base_kw={'n_designs': 3},
                                  rho_values=(0.995, 0.9) if tier == 'thorough' else (0.995,))
    if tier == 'thorough':
        out += spaces.threshold_space({'name': 'B', 'G': 5, 'T': 12}, methods=('exhaustive_search',), base_kw={'n_designs': 3})
        out += spaces.threshold_space({'name': 'A', 'G': 4, 'T': 12}, methods=('exhaustive_search',), base_kw={'n_designs': 1})
    # responses in other units (x 2^20, x 2^-20): the score's last entry becomes tiny / huge; ranking must not change
    for k in (20, -20):
        out += list(spaces.with_methods(spaces.dev_configs(dict(pB4, scale_pow=k), 1, ['treatment_geos_range', 'n_geos_max', 'n_designs', 'budget_range'],
                                                           base_kw={'n_designs': 2}, k_values=(1, 5), with_matrix_level=False),
                                        ('exhaustive_search',)))
    # share thresholds on the share-DRIFT panel, whose volume ranking is not geometric: a later treatment group of a size can
    # have a LARGER share than an earlier one ({0,3} < {1,2}), so "all following groups are smaller still" is false
    out += spaces.threshold_space({'name': 'D', 'G': 4, 'T': 12}, methods=('exhaustive_search',), base_kw={'n_designs': 3}, parts=('share',))
    # a geo WITHOUT variation: designs built on it have an undefined score, but they are feasible, so with k >= |feasible| they
    # must all be returned ("all of them if fewer exist"); judged by membership and count only (no scores are compared)
    for variant in ('flatlast', 'zerolast'):
        pf = {'name': 'B', 'G': 4, 'T': 14, 'variant': variant}
        for c in spaces.with_methods(spaces.dev_configs(pf, 1, ['treatment_geos_range', 'control_geos_range', 'geo_ratio_tolerance', 'n_pretest_max'],
                                                        base_kw={'n_designs': 200}, k_values=(), with_matrix_level=False), ('exhaustive_search',)):
            if spaces.precondition_ok(c):
                out.append(dict(c, count_only=True, deviations=c['deviations'] + 1))
    out += spaces.weak_space(seeds=(0, 1, 5) if tier != 'thorough' else (0, 1, 2, 3, 5, 6))
    out += spaces.reuse_space(pB4, INCLUDE, {'n_designs': 2}, methods=('exhaustive_search',), d=2 if tier == 'thorough' else 1)
    return out


def run_case(case):
    obs = sc.observe(case)
    if obs['stage'] == 'data':
        return {'viol': [], 'nontrivial': False, 'outcome': 'data-rejected'}
    ref = sc.Ref(case)
    if case.get('count_only'):
        viol = []
        if obs['exc'] is None and obs['admitted'] is not None:
            F_any, F_must, _ = ref.feasible_sets(obs['admitted'], with_exemption=False)
            got = {(frozenset(d['T']), frozenset(d['C'])) for d in obs['designs']}
            k = case['kw'].get('n_designs', 1)
            if len(got) != len(obs['designs']):
                viol.append({'key': 'C03:duplicate-designs', 'msg': 'result contains the same design twice'})
            if not got <= F_any:
                viol.append({'key': 'C03:returned-infeasible', 'msg': 'returned designs outside the feasible set: %s' % [sc._fmt(g) for g in sorted(got - F_any, key=sc._dkey)[:2]]})
            if len(got) < min(k, len(F_must)):
                missing = sorted(F_must - got, key=sc._dkey)
                viol.append({'key': 'C03:too-few', 'msg': 'returned %d designs, n_designs=%d, but %d feasible designs exist (a geo without variation is present); e.g. missing %s' % (
                    len(got), k, len(F_must), sc._fmt(missing[0]))})
        elif obs['exc'] is not None and obs['stage'] != 'data' and obs['exc']['type'] != 'ValueError':
            viol.append({'key': 'C03:raises-' + obs['exc']['type'], 'msg': 'exhaustive_search raised %s on a panel with a flat geo' % obs['exc']['type']})
        nd = len(obs['designs'] or ())
        return {'viol': viol, 'nontrivial': nd >= 1, 'outcome': ['flat', min(nd, 3)], 'counts': {'designs_returned': nd}}
    viol, info = sc.oracle_optimal(case, ref, obs)
    k = case['kw'].get('n_designs', 1)
    nd = len(obs['designs'] or ())
    prefixes = sorted({tuple(d['score'][:4]) for d in obs['designs'] or ()})
    return {'viol': viol, 'nontrivial': info.get('F_must', 0) - info.get('exempt', 0) > k,
            'outcome': [obs['exc']['type'] if obs['exc'] else 'ok', min(nd, 3), prefixes[:2]],
            'counts': {'designs_returned': nd, 'feasible_designs_scored': info.get('F_any', 0),
                       'cases_using_exemption': 1 if info.get('exempt') else 0}}


def run(tier, seed, jobs):
    return engine.explore_cases(cases(tier, seed), 'mc.props.c03', jobs=jobs)


def replay(case):
    return run_case(case)['viol']


explain = sc.explain
