"""C04 - diagnostics and score attached to a design belong to its reported geos."""
from mc import engine, spaces, searchcore as sc

ID = 'C04'
LEVEL = 'exploration'
INCLUDE = ['n_pretest_max', 'n_designs', 'budget_range', 'n_geos_max', 'treatment_share_range', 'iroas',
           'treatment_geos_range', 'n_test', 'min_corr', 'sig_level', 'power_level', 'flevel', 'rho_max']
RULE = ('Engine A: panels with T in {12,14,16} (incl. a missing cell and shuffled rows) x DEV(3..5, d) over window, '
        'exclusions (eligibility rows, share/budget/n_geos_max), n_designs and statistical parameters, both searches, '
        'EVERY position of the result list; REUSE: the same on a data object that already served another matched-markets '
        'object with a longer window / other geo set; MINCORR: min_corr at every two-decimal value adjacent to the correlation of some design (strong and weak panel). Oracle from the raw frame: diag.x/.y and the copy held by the score equal '
        'bit for bit the sums over the reported IDs in the most recent n_pretest_max dates; corr and required impact '
        'equal the closed forms (1e-9); verdicts equal those of a fresh diagnostics object; score tuple equals the '
        'oracle composition (budget_max/RI for exhaustive with budget, else 1/RI); diagnostics objects of different '
        'designs are distinct. Non-trivial = >= 2 designs retained and (a geo excluded or window shorter than the '
        'panel); distinct = distinct case.')
ASSUMPTIONS = ['values: fixed integer panels, so series sums are exact regardless of summation order']


def cases(tier, seed):
    thorough = tier == 'thorough'
    out = []
    ps = [({'name': 'B', 'G': 4, 'T': 14}, 3 if thorough else 2),
          ({'name': 'A', 'G': 3, 'T': 12, 'variant': 'missing'}, 2),
          ({'name': 'A', 'G': 4, 'T': 16, 'variant': 'shuffled'}, 2 if thorough else 1)]
    if thorough:
        ps.append(({'name': 'B', 'G': 5, 'T': 14}, 2))
    if seed:
        ps.append(({'name': 'C', 'G': 4, 'T': 14, 'seed': seed}, 2))
    for p, d in ps:
        for c in spaces.with_methods(spaces.dev_configs(p, d, INCLUDE, base_kw={'n_designs': 6}, k_values=(1, 50))):
            if spaces.precondition_ok(c):
                out.append(c)
    out += spaces.reuse_space({'name': 'B', 'G': 4, 'T': 14}, INCLUDE, {'n_designs': 6}, d=2 if thorough else 1)
    # min_corr at every two-decimal value adjacent to some design's correlation (correlation test vs ROUNDED correlation)
    for pp in ({'name': 'B', 'G': 4, 'T': 14}, {'name': 'W', 'G': 4, 'T': 16, 'seed': 1}):
        out += spaces.mincorr_threshold_space(pp, base_kw={'n_designs': 100})
    out.sort(key=lambda c: (c['deviations'], c['panel']['G']))
    return out


def run_case(case):
    obs = sc.observe(case)
    ref = sc.Ref(case)
    viol = sc.oracle_attached(case, ref, obs)
    nd = len(obs['designs'] or ())
    excluded = obs['admitted'] is not None and len(obs['admitted']) < ref.G
    short = ref.npm < len(ref.dates)
    pos = sorted({tuple(d['score'][:4]) for d in obs['designs'] or ()})
    return {'viol': viol, 'nontrivial': nd >= 2 and (excluded or short),
            'outcome': [obs['exc']['type'] if obs['exc'] else 'ok', min(nd, 4), pos[:2]],
            'counts': {'designs_checked': nd}}


def run(tier, seed, jobs):
    return engine.explore_cases(cases(tier, seed), 'mc.props.c04', jobs=jobs)


def replay(case):
    return run_case(case)['viol']


explain = sc.explain
