"""C05 - required impact is calibrated to the post-analysis test at the stated power."""
import itertools
import math

import numpy as np
from scipy import stats

from mc import engine, frames
from mc.ref import stats as rstats

from matched_markets.methodology.tbr import TBR
from matched_markets.methodology.tbrmmdiagnostics import TBRMMDiagnostics
from matched_markets.methodology.tbrmmdesignparameters import TBRMMDesignParameters

ID = 'C05'
LEVEL = 'exploration'
RULE = ('Engine A: lattice of pre-test pairs (x, y): n in {4,5,6,8,12} x 5 control shapes x noise patterns (pairs with zero '
        'residual variance dropped by the reference model and counted) x n_test in {1,2,5} x sig in {0.8,0.9,0.95} x power '
        'in {0.6,0.8,0.9} x flevel in {0.9,0.99}, plus 14 points with lenient levels / low power where the quantile sum is small or negative (quick: the full 54-point parameter grid for noise pattern 0, a 12-point sub-grid for pattern 1), plus parameter objects that differ in fields the formula must ignore (n_pretest_max smaller than the series, iroas, rho_max, min_corr, n_designs, n_geos_max), plus PRESENTATIONS of the same numbers (integer-dtype y with half-integer x, integer x with half-integer y, both integer, lists, pandas Series); on float arrays the caller OVERWRITES his own buffers after handing them in and before the first read. Oracle: (1) design-side required '
        'impact == closed form (t_sig + t_pow) * n_test * sigma * sqrt(phi (n+1)/(n n_test (n-1)) + 1/n + 1/n_test); (2) two '
        'real code paths against each other: an experiment frame whose test-period control mean is displaced by dx = '
        'sqrt(phi (n+1) Sxx / (n n_test (n-1))) and whose treatment shows exactly lift = required impact is analysed by '
        'tbr.TBR: estimate == lift, (t_sig+t_pow)*scale == required impact, one-sided lower bound at sig_level == t_pow*scale; '
        'same numbers from tbrfit; (3) metamorphic on every lattice point: scaling by 2^k (k = -40 ... 40) scales RI by 2^k, level shifts leave it '
        'unchanged, estimate_required_impact(rho) strictly decreasing in |rho| over a grid. Non-trivial = every lattice point '
        'with positive residual variance; distinct = distinct (series, parameter) point.')
ASSUMPTIONS = ['finite lattice of series; scipy.stats t/F quantiles trusted; comparisons at 1e-9 (1e-7 through statsmodels OLS)']

PARAMS_ALL = [dict(n_test=nt, sig_level=s, power_level=p, flevel=f) for nt in (1, 2, 5) for s in (0.8, 0.9, 0.95)
              for p in (0.6, 0.8, 0.9) for f in (0.9, 0.99)]
PARAMS_Q = [PARAMS_ALL[i] for i in (0, 3, 7, 10, 14, 17, 22, 27, 31, 38, 44, 53)]
# the rest of the documented domain (0, 1) of the two levels: lenient tests and low power, where the two quantiles have
# opposite signs and their sum may be negative (the identity is algebraic and holds there as well)
PARAMS_LOW = [dict(n_test=nt, sig_level=s, power_level=p, flevel=0.9) for nt in (1, 3)
              for s, p in ((0.7, 0.1), (0.6, 0.3), (0.4, 0.5), (0.3, 0.3), (0.9, 0.3), (0.55, 0.5), (0.2, 0.9))]


def cases(tier, seed):
    out = []
    for n in (4, 5, 6, 8, 12):
        for sh in frames.SHAPES:
            for noise in ((0, 1, 2, 3) if tier == 'thorough' else (0, 1)):
                for amp in (1, 3):
                    for par in (PARAMS_ALL if (tier == 'thorough' or noise == 0) else PARAMS_Q):
                        out.append({'n': n, 'shape': sh, 'noise': noise, 'amp': amp, 'seed': seed, 'par': par})
                    if amp == 1:
                        for par in PARAMS_LOW:
                            out.append({'n': n, 'shape': sh, 'noise': noise, 'amp': amp, 'seed': seed, 'par': par})
                    # the series handed to the diagnostics object is what counts: other parameter fields (a small
                    # n_pretest_max, iroas, min_corr, rho_max, n_designs ...) must not enter the required impact
                    for extra in ({'n_pretest_max': 3}, {'n_pretest_max': n - 1, 'rho_max': 0.9, 'min_corr': 0.95},
                                  {'iroas': 4.0, 'n_designs': 7, 'n_geos_max': 2}):
                        if extra.get('n_pretest_max', 3) >= 3:
                            out.append({'n': n, 'shape': sh, 'noise': noise, 'amp': amp, 'seed': seed,
                                        'par': dict(PARAMS_Q[(n + noise) % len(PARAMS_Q)], **extra)})
    # presentations of the SAME numbers: integer-dtype treatment series with a fractional control series (and vice versa),
    # plain lists, pandas Series, float32-representable values held as float32
    for n in (5, 8, 12):
        for sh in frames.SHAPES:
            for pres in ('int-y', 'int-x', 'list', 'series', 'int-both'):
                out.append({'n': n, 'shape': sh, 'noise': 1, 'amp': 1, 'seed': seed, 'par': PARAMS_Q[(n + len(sh)) % len(PARAMS_Q)], 'pres': pres})
    return out


def present(case, x, y):
    """-> (x, y) as handed to the library.  The numbers are unchanged; only the container / dtype differs."""
    import pandas as pd
    pres = case.get('pres')
    if pres == 'int-y':
        return x, y.astype(np.int64)
    if pres == 'int-x':
        return x.astype(np.int64), y
    if pres == 'int-both':
        return x.astype(np.int64), y.astype(np.int64)
    if pres == 'list':
        return [float(v) for v in x], [float(v) for v in y]
    if pres == 'series':
        return pd.Series(x, index=range(10, 10 + len(x))), pd.Series(y, index=range(10, 10 + len(y)))
    return x, y


def pair(case):
    n = case['n']
    x = frames.shape(case['shape'], n, case['seed']) + np.array(frames.lcg_noise(3 * case['seed'] + case['noise'], n, 0, 3), float)
    e = np.array(frames.lcg_noise(17 * case['seed'] + 5 * case['noise'] + 9, n, -2, 2), float)
    y = 2 * x + 5 + case['amp'] * e
    pres = case.get('pres')
    if pres == 'int-y':      # x on a half-integer lattice, y integral: y may be held in an integer dtype, x may not be truncated
        x = x + 0.5 * (np.arange(n) % 2)
        y = np.round(2 * x + 5 + case['amp'] * e)
    elif pres == 'int-x':    # x integral, y on a half-integer lattice
        y = y + 0.5 * (np.arange(n) % 2)
    return x, y


def run_case(case):
    x, y = pair(case)
    n = len(x)
    p = case['par']
    fit = rstats.ols(x, y)
    if fit['s2'] <= 1e-12 or fit['sxx'] <= 0:
        return {'viol': [], 'nontrivial': False, 'outcome': 'degenerate', 'counts': {'degenerate_pairs_dropped': 1}}
    par = TBRMMDesignParameters(**dict({'iroas': 1.0}, **p))
    xp, yp = present(case, x, y)
    d = TBRMMDiagnostics(yp, par)
    d.x = xp
    if isinstance(xp, np.ndarray) and isinstance(yp, np.ndarray) and case.get('pres') is None:
        # caller-side action: the arrays handed in are the CALLER's work buffers, which he refills afterwards; the object
        # must have taken the series it was given (x, y below stay the reference values)
        x, y = xp.copy(), yp.copy()
        xp[:] = xp[::-1] * 3.0 + 1.0
        yp[:] = -7.0
    RI = d.required_impact
    viol = []

    def add(key, msg):
        viol.append({'key': 'C05:' + key, 'msg': msg})
    nt, sig, pw, fl = p['n_test'], p['sig_level'], p['power_level'], p['flevel']
    c = rstats.corr(x, y)
    ri_ref = rstats.est_impact(y, c, nt, fl, sig, pw)
    # sigma: residual s.d. from the correlation form equals the OLS residual s.d.
    if not math.isclose(RI, ri_ref, rel_tol=1e-9):
        add('closed-form', 'required_impact=%r, closed form %r' % (RI, ri_ref))
    phi = stats.f.ppf(fl, 1, n - 1)
    tq_s, tq_p = stats.t.ppf(sig, n - 2), stats.t.ppf(pw, n - 2)
    dx = math.sqrt(phi * (n + 1) * fit['sxx'] / (n * nt * (n - 1)))
    xt = np.full(nt, fit['xbar'] + dx)
    yt = fit['a'] + fit['b'] * xt + RI / nt
    xs = np.concatenate([x, xt])
    ys = np.concatenate([y, yt])
    df = frames.build(xs, ys, [0] * n + [1] * nt)
    m = TBR(use_cooldown=False)
    m.fit(df, 'response')
    s = m.summary(level=sig, tails=1).iloc[0]
    scale = s['scale']
    scale_ref = math.sqrt(fit['s2']) * nt * math.sqrt(phi * (n + 1) / (n * nt * (n - 1)) + 1.0 / n + 1.0 / nt)
    tag = 'n=%d %s' % (n, p)
    if not math.isclose(scale, scale_ref, rel_tol=1e-7):
        add('posterior-scale', '%s: TBR scale %r, planning scale %r' % (tag, scale, scale_ref))
    if not math.isclose(s['estimate'], RI, rel_tol=1e-7, abs_tol=1e-7):
        add('post-analysis-estimate', '%s: TBR estimate %r, planted lift %r' % (tag, s['estimate'], RI))
    if not math.isclose((tq_s + tq_p) * scale, RI, rel_tol=1e-7):
        add('calibration', '%s: (t_sig+t_pow)*scale=%r but required impact=%r' % (tag, (tq_s + tq_p) * scale, RI))
    if not math.isclose(s['lower'], tq_p * scale, rel_tol=1e-6, abs_tol=1e-6 * abs(RI)):
        add('lower-bound-at-power', '%s: one-sided lower bound %r, t_pow*scale %r' % (tag, s['lower'], tq_p * scale))
    f = d.tbrfit(float(xt.mean()), float(yt.mean()))
    if not (math.isclose(f.estimate, RI, rel_tol=1e-9, abs_tol=1e-9) and math.isclose(f.scale, scale_ref, rel_tol=1e-9)
            and math.isclose(f.cihw, tq_s * scale_ref, rel_tol=1e-9)):
        add('design-side-fit', '%s: tbrfit=%r expected estimate %r scale %r' % (tag, tuple(f), RI, scale_ref))
    # metamorphic
    for k in (-3, 1, 10, -40, 40):      # incl. responses in a tiny / huge unit (billions; micro-units)
        cc = 2.0 ** k
        d2 = TBRMMDiagnostics(cc * y, par)
        d2.x = cc * x
        if not math.isclose(d2.required_impact, cc * RI, rel_tol=1e-9):
            add('not-linear-in-unit', '%s: scale 2^%d gives %r, expected %r' % (tag, k, d2.required_impact, cc * RI))
    d3 = TBRMMDiagnostics(y + 1024.0, par)
    d3.x = x - 512.0
    if not math.isclose(d3.required_impact, RI, rel_tol=1e-9):
        add('level-shift-dependence', '%s: level shift changes RI %r -> %r' % (tag, RI, d3.required_impact))
    # a level that is huge compared with the day-to-day variation (values stay exactly representable: integers + 2^26)
    d4 = TBRMMDiagnostics(y + 2.0 ** 26, par)
    d4.x = x + 2.0 ** 24
    if not math.isclose(d4.required_impact, RI, rel_tol=1e-7):
        add('level-shift-dependence', '%s: a level shift of 2^26 changes RI %r -> %r' % (tag, RI, d4.required_impact))
    grid = [0.0, 0.3, 0.6, 0.9, 0.99, 0.995]
    vals = [d.estimate_required_impact(r) for r in grid]
    neg = [d.estimate_required_impact(-r) for r in grid]
    sgn = 1.0 if (tq_s + tq_p) > 0 else -1.0      # the magnitude decreases; with a negative quantile sum the values are negative
    if not all(sgn * a > sgn * b for a, b in zip(vals, vals[1:])) or not all(math.isclose(a, b, rel_tol=1e-12) for a, b in zip(vals, neg)):
        add('not-decreasing-in-abs-corr', '%s: estimate_required_impact over %s = %s / negative %s' % (tag, grid, vals, neg))
    seen = set()
    viol = [v for v in viol if not (v['key'] in seen or seen.add(v['key']))]
    return {'viol': viol, 'nontrivial': True, 'outcome': [n, nt, round(math.log10(abs(RI)), 0), RI > 0], 'counts': {'tbr_fits': 1}}


def run(tier, seed, jobs):
    return engine.explore_cases(cases(tier, seed), 'mc.props.c05', jobs=jobs, chunksize=8)


def replay(case):
    return run_case(case)['viol']


def explain(case):
    x, y = pair(case)
    return {'pretest_control': x.tolist(), 'pretest_treatment': y.tolist(), 'parameters': case['par']}
