"""C06 - the TBR posterior of the cumulative effect equals the closed-form model."""
import itertools
import math

import numpy as np
from scipy import stats

from mc import engine, frames
from mc.ref import stats as rstats

from matched_markets.methodology.tbr import TBR
from matched_markets.methodology.tbrmmdiagnostics import TBRMMDiagnostics
from matched_markets.methodology.tbrmmdesignparameters import TBRMMDesignParameters

ID = 'C06'
LEVEL = 'exploration'
RULE = ('Engine A: lattice of experiment frames (5 shapes x noise patterns x n_pre in {3,4,6,8,12} x n_test in {1,2,4} x '
        'cooldown in {0,2} x use_cooldown) x ALL layout variants (geos per group 1-3 with dyadic splits, extra unassigned '
        'geo, unassigned-period dates, 3 row orders, custom column names / group labels, custom non-monotone period labels, and the analysis object in a NON-INITIAL state: already fitted to another experiment and asked for its reports) x summary settings (level in '
        '{0.2,0.5,0.8,0.9,0.95} x tails x threshold in {0,+-c} x rescale in {0.5,1,4} x report in {last,all}; quick uses '
        'a 56-setting sub-grid incl. rescale != 1 with threshold != 0, thorough all 180). Oracle: degrees of freedom, location and scale on EVERY analysed '
        'day against the closed form (OLS + Kerman 2017 eq. 5), also through causal_cumulative_distribution(time, rescale) for every combination of day index in {0, middle, last, -1} x rescale in {1, 0.25, 3}; every layout variant gives the identical distribution; '
        'summary rows: lower = ppf(alpha), upper = ppf(1-alpha) or +inf, precision = estimate - lower, probability = '
        '1 - cdf(threshold), lower <= estimate <= upper (ordering only for levels > 0.5 when tails = 1, scope S1); '
        'TBRMMDiagnostics.tbrfit on the same totals gives the same estimate and |t_sig| * scale half-width, on a fresh object and on an object that analysed other series (other control series; other treatment series of another length) before and whose caller refills his array after handing it in. '
        'Non-trivial = frame with >= 2 analysed days or a non-default layout; distinct = distinct case.')
ASSUMPTIONS = ['frames whose pre-period points lie exactly on a line (zero residual variance) are dropped and counted',
               'value lattice: integer totals (multiples of 4) from 5 shapes + small noise patterns; comparisons at 1e-9 relative',
               'scipy.stats.t quantiles/CDF are trusted (common to implementation and oracle)',
               'scope S1: ordering/precision clauses not asserted for tails=1 with level <= 0.5']

LAYOUTS = [dict(), dict(gc=2, gt=3), dict(gc=3, gt=2, order='reversed'), dict(extra_geo=True, order='mixed'),
           dict(extra_dates=[['lead', -1]]), dict(extra_dates=[['trail', -1]], gc=2), dict(extra_dates=[['lead', -1], ['trail', 3]], extra_geo=True, gt=2, order='reversed'),
           dict(names={'date': 'day', 'group': 'grp', 'period': 'per', 'response': 'sales', 'geo': 'Geo'}, labels={'control': 7, 'treatment': 5}),
           dict(period_labels={0: 12, 1: 10, 2: 11, -1: 3}, extra_dates=[['lead', -1]], gc=2, order='mixed'),
           dict(refit=True), dict(refit=True, extra_dates=[['lead', -1], ['trail', 3]], extra_geo=True, gt=2, order='reversed')]
LEVELS = [0.2, 0.5, 0.8, 0.9, 0.95]
SETTINGS_ALL = [dict(level=l, tails=t, threshold=th, rescale=r, report=rep) for l in LEVELS for t in (1, 2)
                for th in (0.0, 25.0, -40.0) for r in (0.5, 1.0, 4.0) for rep in ('last', 'all')]
SETTINGS_Q = [s for i, s in enumerate(SETTINGS_ALL) if (s['rescale'] == 1.0 or (s['threshold'] == 0.0 and s['report'] == 'last'))
              and (s['report'] == 'all' or s['threshold'] != 25.0)][:40]
# ... plus the combinations of a rescale factor != 1 WITH a threshold != 0 (probability of the RESCALED effect)
SETTINGS_Q += [s for s in SETTINGS_ALL if s['rescale'] != 1.0 and s['threshold'] != 0.0 and s['level'] in (0.5, 0.9) and s['report'] == 'last']


def cases(tier, seed):
    out = []
    thorough = tier == 'thorough'
    shapes = frames.SHAPES
    for sh, npre, ntest, ncool in itertools.product(shapes, (3, 4, 6, 8, 12), (1, 2, 4), (0, 2)):
        for noise in ((0, 1, 2) if thorough else (0, 1)):
            for use_cd in ((True, False) if ncool else (False,)):
                spec = {'shape': sh, 'npre': npre, 'ntest': ntest, 'ncool': ncool, 'noise': noise, 'seed': seed}
                out.append({'spec': spec, 'use_cooldown': use_cd})
    return out


def fit(spec, use_cd, layout):
    x, y, periods = frames.series(spec)
    kw = {k: v for k, v in layout.items() if k in ('gc', 'gt', 'extra_geo', 'order', 'names', 'labels')}
    if layout.get('period_labels'):
        kw['period_labels'] = {int(k): v for k, v in layout['period_labels'].items()}
    if layout.get('extra_dates'):
        kw['extra_dates'] = [tuple(e) for e in layout['extra_dates']]
    df = frames.build(x, y, periods, **kw)
    m = TBR(use_cooldown=use_cd)
    if layout.get('refit'):
        # NON-INITIAL state: the object has analysed ANOTHER experiment (other lengths, default column names) before
        spec2 = dict(spec, npre=spec['npre'] + 3, ntest=spec['ntest'] + 2, ncool=1, shape='vee' if spec['shape'] != 'vee' else 'step', lift=-9)
        x2, y2, p2 = frames.series(spec2)
        m.fit(frames.build(2 * x2, 0.5 * y2, p2, gc=2), 'response')
        m.summary(level=0.8, tails=2, report='all')
        m.causal_cumulative_distribution()
    fkw = {}
    if layout.get('names'):
        nm = layout['names']
        fkw.update(key_date=nm['date'], key_group=nm['group'], key_period=nm['period'], key_response=nm['response'], key_geo=nm['geo'])
        lb = layout['labels']
        fkw.update(group_control=lb['control'], group_treatment=lb['treatment'])
        target = nm['response']
    else:
        target = 'response'
    if layout.get('period_labels'):
        pl = {int(k): v for k, v in layout['period_labels'].items()}
        fkw.update(period_pre=pl[0], period_test=pl[1], period_cooldown=pl[2], period_unassigned=pl[-1])
    m.fit(df, target, **fkw)
    return m, x, y, periods


def run_case(case):
    spec, use_cd = case['spec'], case['use_cooldown']
    x0, y0, periods = frames.series(spec)
    npre = spec['npre']
    keep = [i for i, p in enumerate(periods) if p == 1 or (p == 2 and use_cd)]
    xt, yt = x0[keep], y0[keep]
    ref = rstats.tbr_posterior(x0[:npre], y0[:npre], xt, yt)
    if ref['fit']['s2'] <= 1e-9 * max(1.0, float(np.var(y0[:npre]))):
        # pre-period points exactly on a line: zero residual variance, the posterior is degenerate (scale 0, quantiles
        # decided by rounding noise) - outside "fitted experiment"; dropped and counted, like in C05 / C18
        return {'viol': [], 'nontrivial': False, 'outcome': 'zero-residual-variance', 'counts': {'degenerate_frames_dropped': 1}}
    viol = []
    tier_settings = SETTINGS_ALL if case.get('all_settings') else SETTINGS_Q

    def add(key, msg):
        viol.append({'key': 'C06:' + key, 'msg': msg})
    base = None
    for li, layout in enumerate(LAYOUTS):
        try:
            m, _, _, _ = fit(spec, use_cd, layout)
            d = m.causal_cumulative_distribution()
            loc, scale, df_ = np.asarray(d.kwds['loc'], float), np.asarray(d.kwds['scale'], float), d.args[0]
        except Exception as e:
            add('fit-raises-%s:layout%d' % (type(e).__name__, li), 'layout %s: %s: %s' % (layout, type(e).__name__, str(e)[:150]))
            continue
        if li == 0:
            base = (loc, scale, df_)
            if df_ != ref['df']:
                add('degrees-of-freedom', 'df=%r, closed form n_pre-2=%d' % (df_, ref['df']))
            if len(loc) != len(ref['loc']) or not np.allclose(loc, ref['loc'], rtol=1e-9, atol=1e-7):
                add('location', 'loc=%s closed form %s' % (loc.tolist(), ref['loc'].tolist()))
            if len(scale) != len(ref['scale']) or not np.allclose(scale, ref['scale'], rtol=1e-9, atol=1e-9):
                add('scale', 'scale=%s closed form (Kerman eq. 5) %s' % (scale.tolist(), ref['scale'].tolist()))
        elif base is not None:
            if not (len(loc) == len(base[0]) and np.allclose(loc, base[0], rtol=1e-10, atol=1e-8) and np.allclose(scale, base[1], rtol=1e-10) and df_ == base[2]):
                add('layout-dependence:layout%d' % li, 'layout %s changes the distribution: loc %s vs %s, scale %s vs %s' % (
                    layout, loc.tolist(), base[0].tolist(), scale.tolist(), base[1].tolist()))
        if li in (0, 9):
            # the public distribution accessor with every combination of its two arguments (day index x rescale factor)
            nd_ = len(ref['loc'])
            for tm in sorted({0, nd_ // 2, nd_ - 1, -1}):
                for rs in (1.0, 0.25, 3.0):
                    try:
                        dd = m.causal_cumulative_distribution(time=tm, rescale=rs)
                        got = (float(dd.kwds['loc']), float(dd.kwds['scale']), dd.args[0])
                    except Exception as e:
                        add('distribution-raises-' + type(e).__name__, 'time=%r rescale=%r: %s' % (tm, rs, str(e)[:100]))
                        continue
                    exp = (rs * ref['loc'][tm], rs * ref['scale'][tm], ref['df'])
                    if not (math.isclose(got[0], exp[0], rel_tol=1e-9, abs_tol=1e-7) and math.isclose(got[1], exp[1], rel_tol=1e-9) and got[2] == exp[2]):
                        add('distribution-time-rescale', 'causal_cumulative_distribution(time=%r, rescale=%r) = (loc %r, scale %r, df %r), closed form (%r, %r, %r)' % (
                            (tm, rs) + got + exp))
        if li in (0, 6, 10):
            for s in tier_settings:
                try:
                    rep = m.summary(level=s['level'], threshold=s['threshold'], tails=s['tails'], report=s['report'], rescale=s['rescale'])
                except Exception as e:
                    add('summary-raises-' + type(e).__name__, '%s: %s' % (s, str(e)[:100]))
                    continue
                nd = len(ref['loc'])
                want = nd if s['report'] == 'all' else 1
                if len(rep) != want:
                    add('summary-rows', 'report=%s gives %d rows, expected %d' % (s['report'], len(rep), want))
                    continue
                alpha = (1 - s['level']) / s['tails']
                for j in range(want):
                    day = nd - want + j
                    L, S = s['rescale'] * ref['loc'][day], s['rescale'] * ref['scale'][day]
                    row = rep.iloc[j]
                    lo = L + S * stats.t.ppf(alpha, ref['df'])
                    up = float('inf') if s['tails'] == 1 else L + S * stats.t.ppf(1 - alpha, ref['df'])
                    pr = 1 - stats.t.cdf((s['threshold'] - L) / S, ref['df'])
                    tag = 'n_pre=%d day %d setting %s' % (npre, day, s)
                    if not math.isclose(row['lower'], lo, rel_tol=1e-9, abs_tol=1e-7):
                        add('summary-lower', '%s: lower=%r expected %r' % (tag, row['lower'], lo))
                    if not (row['upper'] == up or math.isclose(row['upper'], up, rel_tol=1e-9, abs_tol=1e-7)):
                        add('summary-upper', '%s: upper=%r expected %r' % (tag, row['upper'], up))
                    if not math.isclose(row['probability'], pr, rel_tol=1e-9, abs_tol=1e-12):
                        add('summary-probability', '%s: probability=%r expected %r' % (tag, row['probability'], pr))
                    if not math.isclose(row['scale'], S, rel_tol=1e-9):
                        add('summary-scale', '%s: scale=%r expected %r' % (tag, row['scale'], S))
                    strict = s['tails'] == 2 or s['level'] > 0.5
                    if strict:
                        if not (row['lower'] <= row['estimate'] <= row['upper']):
                            add('summary-ordering', '%s: lower=%r estimate=%r upper=%r' % (tag, row['lower'], row['estimate'], row['upper']))
                        if not math.isclose(row['precision'], row['estimate'] - row['lower'], rel_tol=1e-9, abs_tol=1e-7):
                            add('summary-precision', '%s: precision=%r but estimate-lower=%r' % (tag, row['precision'], row['estimate'] - row['lower']))
                        if not math.isclose(row['estimate'], L, rel_tol=1e-9, abs_tol=1e-7):
                            add('summary-estimate', '%s: estimate=%r, posterior location %r' % (tag, row['estimate'], L))
    # design-side fit on the same totals
    ntd = len(xt)
    for sig in (0.9, 0.8):
        par = TBRMMDesignParameters(n_test=ntd, iroas=1.0, sig_level=sig)
        dg = TBRMMDiagnostics(y0[:npre], par)
        dg.x = x0[:npre]
        f = dg.tbrfit(float(np.mean(xt)), float(np.mean(yt)))
        if not math.isclose(f.estimate, ref['loc'][-1], rel_tol=1e-9, abs_tol=1e-7):
            add('design-side-estimate', 'tbrfit estimate %r, closed form %r' % (f.estimate, ref['loc'][-1]))
        hw = stats.t.ppf(sig, ref['df']) * ref['scale'][-1]
        if not math.isclose(f.cihw, hw, rel_tol=1e-9):
            add('design-side-half-width', 'tbrfit cihw %r, |t_sig|*scale %r (sig=%s)' % (f.cihw, hw, sig))
    # the same clause on a diagnostics object in a NON-INITIAL state: it has analysed another control series (and, in the
    # second round, another treatment series of another length) before it is handed this frame's totals
    par = TBRMMDesignParameters(n_test=ntd, iroas=1.0, sig_level=0.9)
    xo = x0[:npre][::-1] * 0.5 + 16.0 * (np.arange(npre) % 3)
    hw = stats.t.ppf(0.9, ref['df']) * ref['scale'][-1]
    for rnd in (1, 2):
        try:
            if rnd == 1:
                dg = TBRMMDiagnostics(y0[:npre], par)
            else:
                yo = np.concatenate([y0[:npre], y0[:2] + 8.0])
                dg = TBRMMDiagnostics(yo, par)
                xo2 = np.concatenate([xo, xo[:2]])
                dg.x = xo2
                dg.tbrfit(1.0, 2.0), dg.required_impact, dg.corr
                dg.y = y0[:npre]
            dg.x = xo
            dg.tbrfit(float(np.mean(xt)) + 4.0, float(np.mean(yt))), dg.required_impact, dg.corr
            bx = np.array(x0[:npre], float)         # the caller's work buffer: handed in, then refilled by the caller
            dg.x = bx
            bx[:] = bx[::-1] * 2.0 + 3.0
            f = dg.tbrfit(float(np.mean(xt)), float(np.mean(yt)))
        except Exception as e:
            add('design-side-reused-object-raises-' + type(e).__name__, 'round %d: %s' % (rnd, str(e)[:120]))
            continue
        if not (math.isclose(f.estimate, ref['loc'][-1], rel_tol=1e-9, abs_tol=1e-7) and math.isclose(f.cihw, hw, rel_tol=1e-9)):
            add('design-side-reused-object', 'round %d: a diagnostics object that analysed other series before gives tbrfit estimate %r / '
                'half-width %r, closed form %r / %r' % (rnd, f.estimate, f.cihw, ref['loc'][-1], hw))
    seen = set()
    viol = [v for v in viol if not (v['key'] in seen or seen.add(v['key']))]
    return {'viol': viol, 'nontrivial': True, 'outcome': [npre, len(keep), len(viol)],
            'counts': {'layouts_fitted': len(LAYOUTS), 'summary_rows_checked': 2 * len(tier_settings)}}


def run(tier, seed, jobs):
    cs = cases(tier, seed)
    if tier == 'thorough':
        for c in cs:
            c['all_settings'] = True
    return engine.explore_cases(cs, 'mc.props.c06', jobs=jobs, chunksize=2)


def replay(case):
    return run_case(case)['viol']


def explain(case):
    x, y, periods = frames.series(case['spec'])
    return {'control_totals_per_date': x.tolist(), 'treatment_totals_per_date': y.tolist(), 'periods': periods,
            'use_cooldown': case['use_cooldown'],
            'python': 'build a long frame (columns date, geo, group 1/2, period, response) from the totals, set_index("geo"); '
                      'm = TBR(use_cooldown); m.fit(df, "response"); compare m.causal_cumulative_distribution() / m.summary(...) with the closed form'}
