"""C07 - the iROAS summary is coherent with its incremental response and cost."""
import itertools
import math

import numpy as np

from mc import engine, frames
from mc.ref import stats as rstats

from matched_markets.methodology.tbr_iroas import TBRiROAS

ID = 'C07'
LEVEL = 'exploration'
NSIMS = 2000
RULE = ('Engine A: lattice of experiment frames with cost columns: 4 shapes x n_pre in {3 (one degree of freedom),4,6,10} x n_test in {1,3} x cooldown '
        'in {0,2} x use_cooldown x scenario in {fixed (pre-period and control test-period cost exactly 0), variable (costs O(10), '
        'strong cost effect), control-cost-only-in-cooldown, pre-period-cost (both groups), treatment-pre-cost-only, control-test-cost-only, a stray 1e-6 booking in the pre-period / in the test period of control next to a 50 000-a-day campaign, low-spend (negative predicted spend)} x tails x level in {0.5,0.8,0.9,0.95} x '
        'threshold in {0, 1.5} x random_state in {0,7} (quick: sub-grid) x object state in {fresh, already fitted to ANOTHER experiment (other cost scenario, other lengths) and asked for all reports}. Oracle: fixed: estimate/lower/upper = response-effect '
        'figures / incremental cost (closed form), incremental_response_{lower,upper} = bounds x cost; variable: two calls '
        'with the same integer random_state give identical reports; both: lower <= estimate <= upper (scope S1/S2), scenario '
        'label == fixed <=> the reference sees zero pre-period and control test-period cost, cost x a and response x b '
        '(powers of two) multiply the iROAS figures by b/a (1e-7) and leave probability (threshold scaled alike) and '
        'relative lift unchanged. Non-trivial = every frame (each decides label, determinism and equivariance); distinct = '
        'distinct case.')
ASSUMPTIONS = ['scope S1: ordering not asserted for tails=1 with level <= 0.5',
               'scope S2: variable-cost ordering asserted only where the cost effect is non-degenerate (reference |location|/scale >= 30, >= 6 d.f., level >= 0.8)',
               'scope S3: alphabet holds exact zeros or O(1..10) costs only, so "zero" and "approximately zero" coincide',
               'simulation size nsims=%d with fixed integer random_state' % NSIMS]


def cost_series(scen, x, npre, ntest, ncool, seed):
    n = npre + ntest + ncool
    if scen == 'fixed':
        cc = np.zeros(n)
        ct = np.zeros(n)
        ct[npre:npre + ntest] = 40.0
    elif scen == 'variable':
        cc = 32.0 + 4 * np.array(frames.lcg_noise(seed + 71, n, 0, 3), float)
        ct = 2 * cc + 4 * np.array(frames.lcg_noise(seed + 73, n, 0, 2), float)
        ct[npre:npre + ntest] += 400.0
    elif scen == 'control-cost-in-cooldown':       # zero in pre and control-test: still "fixed" by the statement
        cc = np.zeros(n)
        ct = np.zeros(n)
        ct[npre:npre + ntest] = 40.0
        if ncool:
            cc[npre + ntest:] = 8.0
    elif scen == 'pre-period-cost':                # non-zero pre-period cost: variable
        cc = np.zeros(n)
        ct = np.zeros(n)
        cc[:npre] = 8.0 + 4 * np.array(frames.lcg_noise(seed + 79, npre, 0, 3), float)
        ct[:npre] = 2 * cc[:npre] + 4 * np.array(frames.lcg_noise(seed + 83, npre, 0, 2), float)
        ct[npre:npre + ntest] = 400.0
    elif scen == 'treatment-pre-cost-only':        # only the treatment group ever spent: non-zero pre-period cost => variable
        cc = np.zeros(n)
        ct = 16.0 + 4 * np.array(frames.lcg_noise(seed + 90, n, 0, 3), float)
        ct[npre:npre + ntest] += 400.0
    elif scen == 'control-test-cost-only':         # control spends only in the test period => variable
        cc = np.zeros(n)
        ct = np.zeros(n)
        cc[npre:npre + ntest] = 8.0
        ct[npre:npre + ntest] = 400.0
    elif scen in ('stray-pre-cost', 'stray-control-test-cost'):
        # a large campaign (50 000 per test day) and ONE stray booking of 1e-6 outside it: tiny relative to the spend, yet
        # not zero - the statement (and the implementation's absolute 1e-10 cut-off) say "variable"
        cc = np.zeros(n)
        ct = np.zeros(n)
        ct[npre:npre + ntest] = 50000.0
        if scen == 'stray-pre-cost':
            ct[1] = 1e-6
        else:
            cc[npre] = 1e-6
    elif scen == 'low-spend':
        # treatment spends almost nothing before the test while control spends visibly: the fitted line has a negative
        # intercept and PREDICTS negative spend on days when control spends little (all observed costs are >= 0)
        cc = 8.0 + 4 * np.array(frames.lcg_noise(seed + 97, n, 0, 5), float)
        ct = np.maximum(0.0, 0.5 * cc - 6.0 + np.array(frames.lcg_noise(seed + 101, n, 0, 1), float))
        ct[npre:npre + ntest] += 400.0
    else:
        raise KeyError(scen)
    return cc, ct


def cases(tier, seed):
    out = []
    thorough = tier == 'thorough'
    for sh, npre, ntest, ncool in itertools.product(frames.SHAPES[:4] if not thorough else frames.SHAPES, (3, 4, 6, 10), (1, 3), (0, 2)):
        for scen in ('fixed', 'variable', 'control-cost-in-cooldown', 'pre-period-cost', 'treatment-pre-cost-only', 'control-test-cost-only',
                     'stray-pre-cost', 'stray-control-test-cost', 'low-spend'):
            for use_cd in ((True, False) if ncool else (False,)):
                settings = [(t, l, th, rs) for t in (1, 2) for l in (0.5, 0.8, 0.9, 0.95) for th in (0.0, 1.5) for rs in (0, 7)]
                if not thorough:
                    settings = [s for i, s in enumerate(settings) if i % 5 == (npre + ntest) % 5]
                for t, l, th, rs in settings:
                    out.append({'spec': {'shape': sh, 'npre': npre, 'ntest': ntest, 'ncool': ncool, 'seed': seed, 'lift': 10},
                                'scen': scen, 'use_cooldown': use_cd, 'tails': t, 'level': l, 'threshold': th, 'random_state': rs})
                    if thorough or rs == 0:
                        out.append(dict(out[-1], state='refit'))
    return out


def used_before(m, case):
    """NON-INITIAL state of the analysis object: it has been fitted to ANOTHER experiment (other cost scenario, other period
    lengths, other data) and asked for all its reports before it is fitted to this case's frame."""
    spec = dict(case['spec'])
    spec.update(npre=spec['npre'] + 2, ntest=spec['ntest'] + 1, ncool=2, shape='zigzag' if spec['shape'] != 'zigzag' else 'ramp', lift=3)
    x, y, periods = frames.series(spec)
    other = 'variable' if case['scen'] in ('fixed', 'control-cost-in-cooldown') else 'fixed'
    cc, ct = cost_series(other, x, spec['npre'], spec['ntest'], spec['ncool'], spec.get('seed', 0))
    m.fit(frames.build(0.5 * x, 2 * y, periods, cost_c=cc, cost_t=ct))
    for call in (lambda: m.summary(level=0.8, tails=2, random_state=3, nsims=200),
                 lambda: m.summary(level=0.9, tails=1, posterior_threshold=1.0, random_state=3, nsims=200),
                 lambda: m.estimate_pointwise_and_cumulative_effect('tbr_response', level=0.8, tails=2),
                 lambda: m.estimate_pointwise_and_cumulative_effect('tbr_cost', level=0.8, tails=2)):
        try:
            call()
        except ValueError:
            pass        # (known finding K1 of C18 may refuse a series report; irrelevant here)


def make(case, a=1.0, b=1.0):
    spec = case['spec']
    x, y, periods = frames.series(spec)
    cc, ct = cost_series(case['scen'], x, spec['npre'], spec['ntest'], spec.get('ncool', 0), spec.get('seed', 0))
    df = frames.build(b * x, b * y, periods, cost_c=a * cc, cost_t=a * ct)
    m = TBRiROAS(use_cooldown=case['use_cooldown'])
    if case.get('state') == 'refit':
        used_before(m, case)
    m.fit(df)
    return m, x, y, cc, ct, periods


def run_case(case):
    viol = []

    def add(key, msg):
        viol.append({'key': 'C07:' + key, 'msg': msg})
    spec = case['spec']
    npre, ntest = spec['npre'], spec['ntest']
    kw = dict(level=case['level'], tails=case['tails'], posterior_threshold=case['threshold'], random_state=case['random_state'], nsims=NSIMS)
    try:
        m, x, y, cc, ct, periods = make(case)
        s1 = m.summary(**kw).iloc[0]
        s2 = m.summary(**kw).iloc[0]
    except Exception as e:
        return {'viol': [{'key': 'C07:summary-raises-' + type(e).__name__, 'msg': '%s: %s' % (type(e).__name__, str(e)[:200])}],
                'nontrivial': True, 'outcome': type(e).__name__}
    tag = '%s %s' % (case['scen'], {k: case[k] for k in ('tails', 'level', 'threshold', 'use_cooldown')})
    if not s1.equals(s2):
        add('nondeterministic', '%s: two calls with random_state=%s differ' % (tag, case['random_state']))
    keep = [i for i, p in enumerate(periods) if p == 1 or (p == 2 and case['use_cooldown'])]
    test_only = [i for i, p in enumerate(periods) if p == 1]
    ref_fixed = (abs(sum(cc[:npre])) + abs(sum(ct[:npre])) == 0) and abs(sum(cc[i] for i in test_only)) == 0
    if (s1['scenario'] == 'fixed') != ref_fixed:
        add('scenario-label', '%s: label %r, reference sees %s non-incremental cost' % (tag, s1['scenario'], 'zero' if ref_fixed else 'non-zero'))
    post = rstats.tbr_posterior(x[:npre], y[:npre], x[keep], y[keep])
    strict_level = case['tails'] == 2 or case['level'] > 0.5
    from scipy import stats
    alpha = (1 - case['level']) / case['tails']
    if s1['scenario'] == 'fixed' and ref_fixed:
        # incremental cost = sum over analysed days of (treatment cost - counterfactual); with zero pre-period cost the
        # counterfactual is zero up to rounding
        cost = float(s1['incremental_cost'])
        cost_ref = sum(ct[i] for i in keep) - 0.0
        if case['scen'] == 'fixed' and not math.isclose(cost, cost_ref, rel_tol=1e-9):
            add('fixed-incremental-cost', '%s: incremental_cost %r, expected %r' % (tag, cost, cost_ref))
        L, S, dfree = post['loc'][-1], post['scale'][-1], post['df']
        exp = {'estimate': L / cost, 'lower': (L + S * stats.t.ppf(alpha, dfree)) / cost,
               'upper': float('inf') if case['tails'] == 1 else (L + S * stats.t.ppf(1 - alpha, dfree)) / cost}
        if cost < 0:
            exp = None
        if exp is not None:
            for k, v in exp.items():
                if not (s1[k] == v or math.isclose(s1[k], v, rel_tol=1e-7, abs_tol=1e-9)):
                    add('fixed-' + k, '%s: %s=%r, response figure / incremental cost = %r' % (tag, k, s1[k], v))
        if not math.isclose(s1['incremental_response'], L, rel_tol=1e-7, abs_tol=1e-7):
            add('fixed-incremental-response', '%s: %r vs %r' % (tag, s1['incremental_response'], L))
        for k in ('lower', 'upper'):
            a_, b_ = s1['incremental_response_' + k], s1[k] * cost
            if not (a_ == b_ or math.isclose(a_, b_, rel_tol=1e-9, abs_tol=1e-9)):
                add('fixed-incremental-response-' + k, '%s: incremental_response_%s=%r, %s*cost=%r' % (tag, k, a_, k, b_))
        if strict_level and not (s1['lower'] <= s1['estimate'] <= s1['upper']):
            add('ordering-fixed', '%s: lower=%r estimate=%r upper=%r' % (tag, s1['lower'], s1['estimate'], s1['upper']))
    elif s1['scenario'] == 'variable' and not ref_fixed:
        cpost = rstats.tbr_posterior(cc[:npre], ct[:npre], cc[test_only], ct[test_only]) if np.ptp(cc[:npre]) > 0 else None
        nondeg = (cpost is not None and cpost['df'] >= 6 and post['df'] >= 6 and abs(cpost['loc'][-1]) / cpost['scale'][-1] >= 30
                  and case['level'] >= 0.8)
        if nondeg and not (s1['lower'] <= s1['estimate'] <= s1['upper']):
            add('ordering-variable', '%s: lower=%r estimate=%r upper=%r' % (tag, s1['lower'], s1['estimate'], s1['upper']))
    # equivariance: cost x a, response x b
    a, b = 4.0, 0.5
    try:
        m2, *_ = make(case, a=a, b=b)
        kw2 = dict(kw, posterior_threshold=case['threshold'] * b / a)
        t1 = m2.summary(**kw2).iloc[0]
        for k in ('estimate', 'lower', 'upper', 'precision'):
            u, v = t1[k], s1[k] * b / a
            if not (u == v or math.isclose(u, v, rel_tol=1e-7, abs_tol=1e-10)):
                add('equivariance-' + k, '%s: cost x%g, response x%g: %s=%r expected %r' % (tag, a, b, k, u, v))
        for k in ('probability', 'relative_lift', 'relative_lift_lower', 'relative_lift_upper'):
            u, v = t1[k], s1[k]
            if not (u == v or math.isclose(u, v, rel_tol=1e-7, abs_tol=1e-10)):
                add('invariance-' + k, '%s: %s=%r changed to %r under unit change' % (tag, k, v, u))
        if t1['scenario'] != s1['scenario']:
            add('scenario-label-unit-dependent', '%s: %r vs %r' % (tag, t1['scenario'], s1['scenario']))
    except Exception as e:
        add('rescaled-summary-raises-' + type(e).__name__, str(e)[:200])
    seen = set()
    viol = [v for v in viol if not (v['key'] in seen or seen.add(v['key']))]
    return {'viol': viol, 'nontrivial': True, 'outcome': [s1['scenario'], case['tails'], case['level']],
            'counts': {'summaries_computed': 3}}


def run(tier, seed, jobs):
    return engine.explore_cases(cases(tier, seed), 'mc.props.c07', jobs=jobs, chunksize=4)


def replay(case):
    return run_case(case)['viol']


def explain(case):
    spec = case['spec']
    x, y, periods = frames.series(spec)
    cc, ct = cost_series(case['scen'], x, spec['npre'], spec['ntest'], spec.get('ncool', 0), spec.get('seed', 0))
    return {'control_response': x.tolist(), 'treatment_response': y.tolist(), 'control_cost': cc.tolist(), 'treatment_cost': ct.tolist(),
            'periods': periods, 'settings': {k: case[k] for k in ('use_cooldown', 'tails', 'level', 'threshold', 'random_state')}}
