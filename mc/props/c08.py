"""C08 - design diagnostics never serve stale values after their inputs change."""
import copy

import numpy as np

from mc import bfs, engine
from mc.fingerprint import fp

from matched_markets.methodology.tbrmmdiagnostics import TBRMMDiagnostics
from matched_markets.methodology.tbrmmdesignparameters import TBRMMDesignParameters

ID = 'C08'
LEVEL = 'model_checking'
RULE = ('Engine B: explicit-state BFS to closure over a real TBRMMDiagnostics object. Alphabet: x := X_i (6 | 9 series '
        'incl. a constant one that makes the regression fail, series of 8 / 16 points and one series that differs from another by less than 1e-6), x := None, y := Y_j (3 | 5 series of 8, 12 and 16 points; a control series of the wrong length must be rejected and leave the state unchanged), and one read per '
        'public derived quantity (corr, required_impact, pretestfit, bbtest, dwtest, aatest, corr_test, tests_ok, '
        'tbrfit and estimate_required_impact each with two argument values, x, y), for 3 parameter objects (one with a window so short that the A/A test is '
        'undefined). State = byte-exact fingerprint of ALL instance attributes + entry counts of the identity-keyed lru caches + model (id of current x, id of current y); successor states are obtained by REPLAYING the history on a fresh real object (no deep copies). '
        'Invariant in every state and for every read transition: the answer (value or exception type) equals the answer '
        'of a freshly built object holding the model series. A second exploration (default parameters) mixes ordinary assignments with assignments made through ONE caller-owned buffer per role that is refilled in place and handed in again (aliasing between the array of the caller and the object; buffer contents are part of the state). Vacuity guard: each verdict takes both values over the '
        '(x,y) pairs (reported as verdict_values).')
ASSUMPTIONS = ['series alphabet fixed (8, 12 and 16 points, integer valued); reads compare floats bit-exactly (same code, same inputs)',
               'no object is ever copied: every state is rebuilt by replaying its history on a fresh real object (stateless replay), '
               'because functools.lru_cache on the diagnostics methods is keyed by object identity and a deep copy would get a cold cache']

n = 12
t = np.arange(n, dtype=float)
Y = {1: 3 * t + np.array([0, 1, 0, 2, 1, 0, 1, 2, 0, 1, 0, 2.]),
     2: np.array([5, 9, 4, 8, 3, 9, 5, 7, 2, 8, 4, 9.]) * 3,
     3: 40 - 2 * t + np.array([1, 0, 0, 3, 1, 2, 0, 1, 3, 0, 2, 1.]),
     4: 5 * np.arange(16.) + np.array([0, 2, 1, 0, 3, 1, 0, 2, 2, 0, 1, 3, 0, 1, 2, 0.]),   # 16 points
     5: np.array([9, 4, 7, 12, 10, 15, 13, 19.])}                                            # 8 points
X = {1: 2 * t + np.array([1, 0, 2, 0, 1, 1, 0, 2, 1, 0, 2, 0.]),
     2: np.array([3, 1, 4, 1, 5, 9, 2, 6, 5, 3, 5, 8.]),
     3: np.concatenate([t[:6], t[6:] + 30]),
     4: np.full(n, 7.0),
     5: 3 * t + np.array([0, 1, 0, 2, 1, 0, 1, 2, 0, 1, 0, 9.]),
     6: 2 * t + np.array([0, 3, 0, 3, 1, 0, 0, 0, 2, 1, 0, 0.]),   # with Y1: all four tests pass
     7: 2 * np.arange(16.) + np.array([1, 0, 2, 1, 0, 0, 3, 1, 0, 2, 1, 1, 0, 2, 0, 1.]),   # 16 points (for Y4)
     8: np.array([4, 2, 3, 6, 5, 8, 6, 9.]),                                                 # 8 points (for Y5)
     9: 2 * t + np.array([1, 0, 2, 0, 1, 1, 0, 2, 1, 0, 2, 0.]) + 1e-7 * (t % 3)}           # X1 up to 2e-7 (inside numpy's default closeness tolerance): "almost the same" series
PARS = {'default': dict(n_test=3, iroas=1.0), 'aa-undefined': dict(n_test=10, iroas=1.0),
        'strict': dict(n_test=2, iroas=2.0, min_corr=0.95, sig_level=0.95)}
READS = ['corr', 'required_impact', 'pretestfit', 'bbtest', 'dwtest', 'aatest', 'corr_test', 'tests_ok',
         'tbrfit', 'estimate_required_impact', 'x', 'y', 'tbrfit@12,18', 'estimate_required_impact@0.5']


def read(d, q):
    try:
        if q == 'tbrfit':
            return fp(d.tbrfit(10.0, 20.0))
        if q == 'tbrfit@12,18':
            return fp(d.tbrfit(12.0, 18.0))
        if q == 'estimate_required_impact':
            return fp(d.estimate_required_impact(0.9))
        if q == 'estimate_required_impact@0.5':      # a second argument value: argument-keyed caches hold several entries
            return fp(d.estimate_required_impact(0.5))
        return fp(getattr(d, q))
    except Exception as e:
        return ('EXC', type(e).__name__)


def lru_methods():
    """functools.lru_cache-wrapped methods of the class: process-wide caches keyed by `self` = hidden per-object state."""
    return [f for f in vars(TBRMMDiagnostics).values() if hasattr(f, 'cache_info') and hasattr(f, 'cache_clear')]


def canon(d):
    # instance attributes + the number of entries each identity-keyed cache holds for this history (the caches are
    # cleared before every replay, so the count is a function of the history alone)
    hidden = tuple(f.cache_info().currsize for f in lru_methods())
    bufs = tuple((k, fp(v)) for k, v in sorted(BUF.items()))     # contents of the caller's buffers (part of the state)
    return (tuple((k, fp(v)) for k, v in sorted(vars(d).items()) if k != '_par'), hidden, bufs)


BUF = {}      # the caller's reusable work buffers (one per role), re-created by the factory for every replayed history


def alphabet(tier):
    xs = [1, 2, 4, 6, 7, 9] if tier == 'quick' else [1, 2, 3, 4, 5, 6, 7, 8, 9]
    ys = [1, 2, 4] if tier == 'quick' else [1, 2, 3, 4, 5]
    ops = [('setx', i) for i in xs] + [('clearx',)] + [('sety', j) for j in ys] + [('read', q) for q in READS]
    return xs, ys, ops


ALIAS_READS = ['corr', 'required_impact', 'pretestfit', 'aatest', 'tests_ok', 'tbrfit', 'x', 'y']


def alias_alphabet(tier):
    """Second, smaller exploration: the same assignments made through ONE caller-owned buffer per role that is refilled in
    place and handed in again (aliasing between the caller's array and the object), mixed with ordinary assignments."""
    xs, ys = [1, 6, 2], [1, 2]
    ops = ([('setx_buf', i) for i in (1, 6)] + [('sety_buf', j) for j in (1, 2)] + [('setx', 2), ('clearx',), ('sety', 2)]
           + [('read', q) for q in (ALIAS_READS if tier == 'quick' else READS)])
    return xs, ys, ops


def explore_par(pname, tier, jobs=8, alias=False):
    par = TBRMMDesignParameters(**PARS[pname])
    xs, ys, ops = alias_alphabet(tier) if alias else alphabet(tier)
    fresh_cache = {}
    verdict_values = {q: set() for q in ('corr_test', 'tests_ok', 'aatest', 'bbtest', 'dwtest')}

    def fresh(model, q):
        key = (model, q)
        if key not in fresh_cache:
            d = TBRMMDiagnostics(Y[model[1]], par)
            if model[0] is not None:
                d.x = X[model[0]]
            fresh_cache[key] = read(d, q)
            if q in verdict_values:
                verdict_values[q].add(repr(fresh_cache[key])[:60])
        return fresh_cache[key]

    def step(d, model, op):
        viol = []
        obs = None
        if op[0] == 'setx':
            fits = len(X[op[1]]) == len(Y[model[1]])
            try:
                d.x = X[op[1]]
                raised = False
            except ValueError:
                raised = True
            obs = 'ValueError' if raised else 'set'
            if raised == fits:
                viol.append(('C08:x-length-check', 'parameters %s: x := X%d (%d points) with y = Y%d (%d points) %s' % (
                    pname, op[1], len(X[op[1]]), model[1], len(Y[model[1]]), 'was rejected' if raised else 'was accepted')))
            if not raised:
                model = (op[1], model[1])
        elif op[0] == 'clearx':
            d.x = None
            model = (None, model[1])
        elif op[0] == 'sety':
            d.y = Y[op[1]]
            model = (None, op[1])
        elif op[0] == 'setx_buf':
            buf = BUF.setdefault('x', np.zeros(n))
            buf[:] = X[op[1]]                  # refill the caller's buffer in place ...
            try:
                d.x = buf                      # ... and hand the SAME array object in again
                model = (op[1], model[1])
                obs = 'set'
            except ValueError:
                obs = 'ValueError'
                if len(Y[model[1]]) == n:
                    viol.append(('C08:x-length-check', 'x := buffer of %d points rejected with y = Y%d' % (n, model[1])))
        elif op[0] == 'sety_buf':
            buf = BUF.setdefault('y', np.zeros(n))
            buf[:] = Y[op[1]]
            d.y = buf
            model = (None, op[1])
        else:
            obs = read(d, op[1])
            exp = fresh(model, op[1])
            if obs != exp:
                viol.append(('C08:stale:' + op[1], 'parameters %s: reading %s gives %r but a fresh object with x=%s y=%s '
                             'gives %r' % (pname, op[1], obs, model[0], model[1], exp)))
        return model, viol, obs

    def factory():
        BUF.clear()
        for f in lru_methods():
            f.cache_clear()
        return TBRMMDiagnostics(Y[1], par), (None, 1)

    # every state is reached by replaying its history on a fresh live object; every read from every state is a
    # transition checked against a fresh object, so no separate per-state check is needed
    r = bfs.explore_replay_parallel(ops, step, canon, factory, jobs=jobs, max_states=300000)
    for xi in [None] + xs:          # vacuity guard, evaluated here (the workers' caches are not visible to the parent)
        for yj in ys:
            if xi is None or len(X[xi]) == len(Y[yj]):
                for q in verdict_values:
                    fresh((xi, yj), q)
    r['verdict_values'] = {q: len(v) for q, v in verdict_values.items()}
    r['pname'] = pname + ('+caller-buffers' if alias else '')
    return r


def run(tier, seed, jobs):
    res = engine.Result()
    pnames = ['default', 'aa-undefined', 'strict']
    parts = [explore_par(p, tier, jobs) for p in pnames]
    parts.append(explore_par('default', tier, jobs, alias=True))
    states = sum(r['states'] for r in parts)
    trans = sum(r['transitions'] for r in parts)
    for r in parts:
        for v in r['violations']:
            res.violations.append({'key': v['key'], 'msg': v['msg'] + ' | history: ' + repr(v['hist']),
                                   'case': {'parameters': r['pname'], 'tier': tier, 'history': [list(o) for o in v['hist']]}})
    res.coverage = {
        'states': states, 'transitions': trans, 'traces_validated_against_impl': trans,
        'closure_reached': all(r['closure_reached'] for r in parts), 'max_depth': max(r['max_depth'] for r in parts),
        'exhaustive': all(r['closure_reached'] for r in parts),
        'per_parameter_object': {r['pname']: {k: r[k] for k in ('states', 'transitions', 'max_depth', 'closure_reached',
                                                                'distinct_observations', 'verdict_values')} for r in parts},
        'samples': [{'parameters': r['pname'], 'history': [list(o) for o in (r['samples'][0] if r['samples'] else [])]} for r in parts],
        'evaluations': trans, 'distinct_nontrivial': states,
    }
    return res


def replay(case):
    par = TBRMMDesignParameters(**PARS[case['parameters'].split('+')[0]])
    d = TBRMMDiagnostics(Y[1], par)
    model = (None, 1)
    out = []
    BUF.clear()
    hist = [tuple(o) for o in case['history']]
    for i, op in enumerate(hist):
        last = i == len(hist) - 1
        if op[0] == 'setx':
            try:
                d.x = X[op[1]]
                model = (op[1], model[1])
            except ValueError:
                pass
        elif op[0] == 'clearx':
            d.x = None
            model = (None, model[1])
        elif op[0] == 'sety':
            d.y = Y[op[1]]
            model = (None, op[1])
        elif op[0] == 'setx_buf':
            buf = BUF.setdefault('x', np.zeros(n))
            buf[:] = X[op[1]]
            try:
                d.x = buf
                model = (op[1], model[1])
            except ValueError:
                pass
        elif op[0] == 'sety_buf':
            buf = BUF.setdefault('y', np.zeros(n))
            buf[:] = Y[op[1]]
            d.y = buf
            model = (None, op[1])
        else:
            obs = read(d, op[1])
            f = TBRMMDiagnostics(Y[model[1]], par)
            if model[0] is not None:
                f.x = X[model[0]]
            exp = read(f, op[1])
            if obs != exp and last:
                out.append({'key': 'C08:stale:' + op[1], 'msg': '%s reads %r, fresh object gives %r' % (op[1], obs, exp)})
    for q in READS:
        f = TBRMMDiagnostics(Y[model[1]], par)
        if model[0] is not None:
            f.x = X[model[0]]
        got, exp = read(copy.deepcopy(d), q), read(f, q)
        if got != exp:
            out.append({'key': 'C08:stale:' + q, 'msg': 'after the history, %s reads %r, fresh object gives %r' % (q, got, exp)})
    return out


def explain(case):
    return {'series': {'X': {k: v.tolist() for k, v in X.items()}, 'Y': {k: v.tolist() for k, v in Y.items()}},
            'parameters': PARS[case['parameters']],
            'buffers': "('setx_buf', i): buf_x[:] = X[i]; d.x = buf_x  (one reusable array per role); ('sety_buf', j) likewise",
            'python': "d = TBRMMDiagnostics(Y[1], TBRMMDesignParameters(**parameters)); apply history: ('setx',i): d.x = X[i]; "
                      "('clearx',): d.x = None; ('sety',j): d.y = Y[j]; ('read',q): getattr(d,q); compare the last read with "
                      "the same read on a fresh TBRMMDiagnostics holding the current series"}
