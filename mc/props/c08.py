"""C08 - design diagnostics never serve stale values after their inputs change."""
import copy

import numpy as np

from mc import bfs, engine
from mc.fingerprint import fp

from matched_markets.methodology.tbrmmdiagnostics import TBRMMDiagnostics
from matched_markets.methodology.tbrmmdesignparameters import TBRMMDesignParameters

ID = 'C08'
LEVEL = 'model_checking'
RULE = ('Engine B: explicit-state BFS to closure over a real TBRMMDiagnostics object. Alphabet: x := X_i (4 | 5 series '
        'incl. a constant one that makes the regression fail), x := None, y := Y_j (2 | 3 series), and one read per '
        'public derived quantity (corr, required_impact, pretestfit, bbtest, dwtest, aatest, corr_test, tests_ok, '
        'tbrfit, estimate_required_impact), for 2 | 3 parameter objects (one with a window so short that the A/A test is '
        'undefined). State = byte-exact fingerprint of ALL instance attributes + model (id of current x, id of current y). '
        'Invariant in every state and for every read transition: the answer (value or exception type) equals the answer '
        'of a freshly built object holding the model series. Vacuity guard: each verdict takes both values over the '
        '(x,y) pairs (reported as verdict_values).')
ASSUMPTIONS = ['series alphabet fixed (12 points, integer valued); reads compare floats bit-exactly (same code, same inputs)',
               'deepcopy of the diagnostics object is faithful (checked: fingerprint of the copy equals the original)']

n = 12
t = np.arange(n, dtype=float)
Y = {1: 3 * t + np.array([0, 1, 0, 2, 1, 0, 1, 2, 0, 1, 0, 2.]),
     2: np.array([5, 9, 4, 8, 3, 9, 5, 7, 2, 8, 4, 9.]) * 3,
     3: 40 - 2 * t + np.array([1, 0, 0, 3, 1, 2, 0, 1, 3, 0, 2, 1.])}
X = {1: 2 * t + np.array([1, 0, 2, 0, 1, 1, 0, 2, 1, 0, 2, 0.]),
     2: np.array([3, 1, 4, 1, 5, 9, 2, 6, 5, 3, 5, 8.]),
     3: np.concatenate([t[:6], t[6:] + 30]),
     4: np.full(n, 7.0),
     5: 3 * t + np.array([0, 1, 0, 2, 1, 0, 1, 2, 0, 1, 0, 9.]),
     6: 2 * t + np.array([0, 3, 0, 3, 1, 0, 0, 0, 2, 1, 0, 0.])}   # with Y1: all four tests pass
PARS = {'default': dict(n_test=3, iroas=1.0), 'aa-undefined': dict(n_test=10, iroas=1.0),
        'strict': dict(n_test=2, iroas=2.0, min_corr=0.95, sig_level=0.95)}
READS = ['corr', 'required_impact', 'pretestfit', 'bbtest', 'dwtest', 'aatest', 'corr_test', 'tests_ok',
         'tbrfit', 'estimate_required_impact', 'x', 'y']


def read(d, q):
    try:
        if q == 'tbrfit':
            return fp(d.tbrfit(10.0, 20.0))
        if q == 'estimate_required_impact':
            return fp(d.estimate_required_impact(0.9))
        return fp(getattr(d, q))
    except Exception as e:
        return ('EXC', type(e).__name__)


def canon(d):
    return tuple((k, fp(v)) for k, v in sorted(vars(d).items()) if k != '_par')


def alphabet(tier):
    xs = [1, 2, 4, 6] if tier == 'quick' else [1, 2, 3, 4, 5, 6]
    ys = [1, 2] if tier == 'quick' else [1, 2, 3]
    ops = [('setx', i) for i in xs] + [('clearx',)] + [('sety', j) for j in ys] + [('read', q) for q in READS]
    return xs, ys, ops


def explore_par(pname, tier):
    par = TBRMMDesignParameters(**PARS[pname])
    xs, ys, ops = alphabet(tier)
    fresh_cache = {}
    verdict_values = {q: set() for q in ('corr_test', 'tests_ok', 'aatest', 'bbtest', 'dwtest')}

    def fresh(model, q):
        key = (model, q)
        if key not in fresh_cache:
            d = TBRMMDiagnostics(Y[model[1]], par)
            if model[0] is not None:
                d.x = X[model[0]]
            fresh_cache[key] = read(d, q)
            if q in verdict_values:
                verdict_values[q].add(repr(fresh_cache[key])[:60])
        return fresh_cache[key]

    def step(d, model, op):
        viol = []
        obs = None
        if op[0] == 'setx':
            d.x = X[op[1]]
            model = (op[1], model[1])
        elif op[0] == 'clearx':
            d.x = None
            model = (None, model[1])
        elif op[0] == 'sety':
            d.y = Y[op[1]]
            model = (None, op[1])
        else:
            obs = read(d, op[1])
            exp = fresh(model, op[1])
            if obs != exp:
                viol.append(('C08:stale:' + op[1], 'parameters %s: reading %s gives %r but a fresh object with x=%s y=%s '
                             'gives %r' % (pname, op[1], obs, model[0], model[1], exp)))
        return model, viol, obs

    def check_state(d, model, hist):
        out = []
        for q in READS:   # every read, performed on a copy, equals the fresh answer
            got = read(copy.deepcopy(d), q)
            exp = fresh(model, q)
            if got != exp:
                out.append(('C08:stale:' + q, 'parameters %s: in the state reached, %s reads %r but a fresh object with '
                            'x=%s y=%s gives %r' % (pname, q, got, model[0], model[1], exp)))
        return out

    init = TBRMMDiagnostics(Y[1], par)
    assert canon(copy.deepcopy(init)) == canon(init)
    r = bfs.explore(init, (None, 1), ops, step, canon, check_state=check_state, max_states=100000)
    r['verdict_values'] = {q: len(v) for q, v in verdict_values.items()}
    r['pname'] = pname
    return r


def run(tier, seed, jobs):
    res = engine.Result()
    pnames = ['default', 'aa-undefined'] if tier == 'quick' else ['default', 'aa-undefined', 'strict']
    import multiprocessing
    ctx = multiprocessing.get_context('fork')
    with ctx.Pool(min(len(pnames), jobs)) as pool:
        parts = pool.starmap(explore_par, [(p, tier) for p in pnames])
    states = sum(r['states'] for r in parts)
    trans = sum(r['transitions'] for r in parts)
    for r in parts:
        for v in r['violations']:
            res.violations.append({'key': v['key'], 'msg': v['msg'] + ' | history: ' + repr(v['hist']),
                                   'case': {'parameters': r['pname'], 'tier': tier, 'history': [list(o) for o in v['hist']]}})
    res.coverage = {
        'states': states, 'transitions': trans, 'traces_validated_against_impl': trans,
        'closure_reached': all(r['closure_reached'] for r in parts), 'max_depth': max(r['max_depth'] for r in parts),
        'exhaustive': all(r['closure_reached'] for r in parts),
        'per_parameter_object': {r['pname']: {k: r[k] for k in ('states', 'transitions', 'max_depth', 'closure_reached',
                                                                'distinct_observations', 'verdict_values')} for r in parts},
        'samples': [{'parameters': r['pname'], 'history': [list(o) for o in (r['samples'][0] if r['samples'] else [])]} for r in parts],
        'evaluations': trans, 'distinct_nontrivial': states,
    }
    return res


def replay(case):
    par = TBRMMDesignParameters(**PARS[case['parameters']])
    d = TBRMMDiagnostics(Y[1], par)
    model = (None, 1)
    out = []
    hist = [tuple(o) for o in case['history']]
    for i, op in enumerate(hist):
        last = i == len(hist) - 1
        if op[0] == 'setx':
            d.x = X[op[1]]
            model = (op[1], model[1])
        elif op[0] == 'clearx':
            d.x = None
            model = (None, model[1])
        elif op[0] == 'sety':
            d.y = Y[op[1]]
            model = (None, op[1])
        else:
            obs = read(d, op[1])
            f = TBRMMDiagnostics(Y[model[1]], par)
            if model[0] is not None:
                f.x = X[model[0]]
            exp = read(f, op[1])
            if obs != exp and last:
                out.append({'key': 'C08:stale:' + op[1], 'msg': '%s reads %r, fresh object gives %r' % (op[1], obs, exp)})
    for q in READS:
        f = TBRMMDiagnostics(Y[model[1]], par)
        if model[0] is not None:
            f.x = X[model[0]]
        got, exp = read(copy.deepcopy(d), q), read(f, q)
        if got != exp:
            out.append({'key': 'C08:stale:' + q, 'msg': 'after the history, %s reads %r, fresh object gives %r' % (q, got, exp)})
    return out


def explain(case):
    return {'series': {'X': {k: v.tolist() for k, v in X.items()}, 'Y': {k: v.tolist() for k, v in Y.items()}},
            'parameters': PARS[case['parameters']],
            'python': "d = TBRMMDiagnostics(Y[1], TBRMMDesignParameters(**parameters)); apply history: ('setx',i): d.x = X[i]; "
                      "('clearx',): d.x = None; ('sety',j): d.y = Y[j]; ('read',q): getattr(d,q); compare the last read with "
                      "the same read on a fresh TBRMMDiagnostics holding the current series"}
