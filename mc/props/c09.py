"""C09 - searches are total: a list of designs (possibly empty) or ValueError, nothing else, and they terminate."""
from mc import engine, spaces, searchcore as sc

ID = 'C09'
LEVEL = 'exploration'
RULE = ('Engine A: complete enumeration of FULL(G<=3) eligibility x constraint-subset spaces and deviation-bounded '
        'DEV(G,d) spaces over ALL parameter dimensions (including mutually unsatisfiable constraints, empty size '
        'ranges, no control/treatment-eligible geo, all geos excluded, window exactly n_test+3), both searches; REUSE: the same on a '
        'data object shared with (and used in between by) another matched-markets object; EDGE: all singles and pairs of values on the edge of the ACCEPTED parameter domain (integer-valued floats for integer fields, iroas 0, tiny / huge tolerances, ranges and budgets, levels whose quantiles cancel, bounds next to 1) and test periods up to window - 3 on a 110-date panel. '
        'Oracle: return value is a list or the exception is ValueError; per-case wall limit turns non-termination '
        'into a violation. Non-trivial = the search answered with an empty list or ValueError (nothing-feasible '
        'branch) or ran under >= 1 deviation from the default configuration; distinct = distinct case.')
ASSUMPTIONS = ['precondition S5 enforced by construction: window >= n_test+3, non-constant integer panels',
               'response values restricted to the fixed integer panels A/B (plus a seed panel when VERIF_SEED != 0)',
               'exceptions raised while constructing TBRMMData are outside the quantifier (judged by C15)']


def panels_for(tier, seed):
    ps = []
    for G in (1, 2, 3):
        ps.append(('FULL', {'name': 'A', 'G': G, 'T': 10}))
    ps.append(('FULL3B', {'name': 'B', 'G': 3, 'T': 12}))
    ps.append(('DEV', {'name': 'B', 'G': 4, 'T': 12}))
    if tier == 'thorough':
        ps.append(('DEV', {'name': 'A', 'G': 4, 'T': 14}))
        ps.append(('DEV5', {'name': 'B', 'G': 5, 'T': 12}))
    if seed:
        ps.append(('DEVS', {'name': 'C', 'G': 3, 'T': 12, 'seed': seed}))
    return ps


def edge_dims(T):
    """Values on the EDGE of the accepted parameter domain (what the constructor accepts is decided by the constructor:
    a rejected parameter object is outside the quantifier).  Integer-valued floats for the integer fields, zero / tiny /
    huge tolerances and budgets, levels whose t-quantiles cancel, the longest admissible test period."""
    return [
        ('n_test', [3.0, T - 3]), ('iroas', [0.0, 5e-324, 1e300]), ('n_geos_max', [2.0, 3.0, 10 ** 6]),
        ('n_pretest_max', [6.0, 10 ** 9, 1e30]), ('n_designs', [2.0, 10 ** 6, 1e30]),
        ('treatment_geos_range', [[1.0, 2.0], [1, 10 ** 6]]), ('control_geos_range', [[1.0, 2.0], [2, 10 ** 6]]),
        ('geo_ratio_tolerance', [1e-12, 1e12]), ('volume_ratio_tolerance', [1e-12, 1e12]),
        ('treatment_share_range', [[1e-12, 1 - 1e-12], [0.5, 0.5000001]]), ('budget_range', [[0.0, 1e-300], [0.0, 1e300], [1e299, 1e300]]),
        ('sig_level', [0.5, 1e-9, 1 - 1e-9]), ('power_level', [0.5, 1e-9, 1 - 1e-9]),
        ('rho_max', [0.9, 1 - 1e-12]), ('min_corr', [1 - 1e-12]), ('flevel', [1 - 1e-12]),
    ]


def edge_cases(tier):
    import itertools
    out = []
    for p, rowsets in (({'name': 'B', 'G': 4, 'T': 12}, ([[1, 1, 1]] * 4, [[0, 1, 0], [1, 1, 1], [1, 0, 0], [1, 1, 1]])),
                       ({'name': 'A', 'G': 2, 'T': 10}, ([[1, 1, 1]] * 2,))):
        dims = edge_dims(p['T'])
        for n in (1, 2):
            for combo in itertools.combinations(range(len(dims)), n):
                for vals in itertools.product(*[dims[i][1] for i in combo]):
                    kw = {dims[i][0]: v for i, v in zip(combo, vals)}
                    for rows in rowsets:
                        if n == 2 and rows is not rowsets[0] and tier != 'thorough':
                            continue
                        out.append({'panel': p, 'rows': [list(r) for r in rows], 'nomatrix': False, 'extra': None, 'kw': kw,
                                    'deviations': n + (rows is not rowsets[0]), 'edge': True})
    # long test periods on a long panel: n_test up to window - 3 (the placeholder objects inside the searches must cope)
    pl = {'name': 'A', 'G': 3, 'T': 110}
    for nt in (90, 96, 97, 98, 100, 107):
        for rows in ([[1, 1, 1]] * 3, [[0, 1, 0], [1, 1, 1], [1, 1, 1]]):
            out.append({'panel': pl, 'rows': [list(r) for r in rows], 'nomatrix': False, 'extra': None,
                        'kw': {'n_test': nt, 'n_pretest_max': 110}, 'deviations': 2, 'edge': True})
    return [c for c in spaces.with_methods(out) if spaces.precondition_ok(c)]


def cases(tier, seed):
    out = []
    for kind, p in panels_for(tier, seed):
        if kind == 'FULL':
            if p['G'] <= 1 or tier == 'thorough':
                cfg = spaces.full_configs(p)
            elif p['G'] == 2:
                cfg = spaces.full_configs(p, ngm_values=(None,))
            else:
                cfg = spaces.full_configs(p, subsets=spaces.QUICK_SUBSETS, ngm_values=(None,))
        elif kind == 'FULL3B':
            if tier != 'thorough':
                continue
            cfg = spaces.full_configs(p, subsets=spaces.QUICK_SUBSETS)
        elif kind == 'DEV':
            cfg = spaces.dev_configs(p, 3 if tier == 'thorough' else 2, spaces.ALL_PARAMS)
        elif kind == 'DEV5':
            cfg = spaces.dev_configs(p, 2, spaces.ALL_PARAMS)
        else:
            cfg = spaces.dev_configs(p, 2, spaces.ALL_PARAMS)
        for c in spaces.with_methods(cfg):
            if spaces.precondition_ok(c):
                out.append(c)
    pB4 = {'name': 'B', 'G': 4, 'T': 12}
    out += spaces.reuse_space(pB4, spaces.ALL_PARAMS, {}, d=2 if tier == 'thorough' else 1)
    out += spaces.reuse2_space(pB4, {})
    out += edge_cases(tier)
    out.sort(key=lambda c: (c['deviations'], c['panel']['G']))
    return out


def run_case(case):
    if case.get('edge'):
        try:
            sc.params(case['kw'])
        except ValueError:
            return {'viol': [], 'nontrivial': False, 'outcome': 'parameters-rejected', 'counts': {'outcome_parameters-rejected': 1}}
    obs = sc.observe(case, want_admitted=False)
    viol = sc.oracle_total(case, obs)
    if obs['exc'] is not None:
        outcome = 'data-rejected' if obs['stage'] == 'data' else obs['exc']['type']
    else:
        outcome = 'empty' if not obs['designs'] else 'designs'
    return {'viol': viol, 'nontrivial': outcome in ('empty', 'ValueError') or case['deviations'] >= 1,
            'outcome': outcome, 'counts': {'outcome_' + outcome: 1}}


def run(tier, seed, jobs):
    return engine.explore_cases(cases(tier, seed), 'mc.props.c09', jobs=jobs)


def replay(case):
    return run_case(case)['viol']


explain = sc.explain
