"""C09 - searches are total: a list of designs (possibly empty) or ValueError, nothing else, and they terminate."""
from mc import engine, spaces, searchcore as sc

ID = 'C09'
LEVEL = 'exploration'
RULE = ('Engine A: complete enumeration of FULL(G<=3) eligibility x constraint-subset spaces and deviation-bounded '
        'DEV(G,d) spaces over ALL parameter dimensions (including mutually unsatisfiable constraints, empty size '
        'ranges, no control/treatment-eligible geo, all geos excluded, window exactly n_test+3), both searches; REUSE: the same on a '
        'data object shared with (and used in between by) another matched-markets object. '
        'Oracle: return value is a list or the exception is ValueError; per-case wall limit turns non-termination '
        'into a violation. Non-trivial = the search answered with an empty list or ValueError (nothing-feasible '
        'branch) or ran under >= 1 deviation from the default configuration; distinct = distinct case.')
ASSUMPTIONS = ['precondition S5 enforced by construction: window >= n_test+3, non-constant integer panels',
               'response values restricted to the fixed integer panels A/B (plus a seed panel when VERIF_SEED != 0)',
               'exceptions raised while constructing TBRMMData are outside the quantifier (judged by C15)']


def panels_for(tier, seed):
    ps = []
    for G in (1, 2, 3):
        ps.append(('FULL', {'name': 'A', 'G': G, 'T': 10}))
    ps.append(('FULL3B', {'name': 'B', 'G': 3, 'T': 12}))
    ps.append(('DEV', {'name': 'B', 'G': 4, 'T': 12}))
    if tier == 'thorough':
        ps.append(('DEV', {'name': 'A', 'G': 4, 'T': 14}))
        ps.append(('DEV5', {'name': 'B', 'G': 5, 'T': 12}))
    if seed:
        ps.append(('DEVS', {'name': 'C', 'G': 3, 'T': 12, 'seed': seed}))
    return ps


def cases(tier, seed):
    out = []
    for kind, p in panels_for(tier, seed):
        if kind == 'FULL':
            if p['G'] <= 1 or tier == 'thorough':
                cfg = spaces.full_configs(p)
            elif p['G'] == 2:
                cfg = spaces.full_configs(p, ngm_values=(None,))
            else:
                cfg = spaces.full_configs(p, subsets=spaces.QUICK_SUBSETS, ngm_values=(None,))
        elif kind == 'FULL3B':
            if tier != 'thorough':
                continue
            cfg = spaces.full_configs(p, subsets=spaces.QUICK_SUBSETS)
        elif kind == 'DEV':
            cfg = spaces.dev_configs(p, 3 if tier == 'thorough' else 2, spaces.ALL_PARAMS)
        elif kind == 'DEV5':
            cfg = spaces.dev_configs(p, 2, spaces.ALL_PARAMS)
        else:
            cfg = spaces.dev_configs(p, 2, spaces.ALL_PARAMS)
        for c in spaces.with_methods(cfg):
            if spaces.precondition_ok(c):
                out.append(c)
    pB4 = {'name': 'B', 'G': 4, 'T': 12}
    out += spaces.reuse_space(pB4, spaces.ALL_PARAMS, {}, d=2 if tier == 'thorough' else 1)
    out += spaces.reuse2_space(pB4, {})
    out.sort(key=lambda c: (c['deviations'], c['panel']['G']))
    return out


def run_case(case):
    obs = sc.observe(case, want_admitted=False)
    viol = sc.oracle_total(case, obs)
    if obs['exc'] is not None:
        outcome = 'data-rejected' if obs['stage'] == 'data' else obs['exc']['type']
    else:
        outcome = 'empty' if not obs['designs'] else 'designs'
    return {'viol': viol, 'nontrivial': outcome in ('empty', 'ValueError') or case['deviations'] >= 1,
            'outcome': outcome, 'counts': {'outcome_' + outcome: 1}}


def run(tier, seed, jobs):
    return engine.explore_cases(cases(tier, seed), 'mc.props.c09', jobs=jobs)


def replay(case):
    return run_case(case)['viol']


explain = sc.explain
