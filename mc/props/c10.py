"""C10 - the search API has no hidden state: answers do not depend on call history."""
import copy
import dataclasses

from mc import bfs, engine, spaces, searchcore as sc
from mc.fingerprint import fp

ID = 'C10'
LEVEL = 'model_checking'
INCLUDE = spaces.C02_SIX + ['n_geos_max', 'n_designs']
RULE = ('Engine B: for every input of DEV(3,d) u DEV(4,d) (d = 1 quick, 2 thorough; complete deviation levels) and DEV(4,1) x 3 '
        'prior uses of the SAME data object by another matched-markets object (non-initial state of the data object), '
        'explicit-state BFS to closure over a real TBRMatchedMarkets object. Alphabet (17 ops, incl. two listings abandoned after their first element): geos_over_budget, '
        'geos_too_large, geos_must_include, geos_within_constraints, geo_assignments, treatment_group_size_range, '
        'count_max_designs, listings of treatment_group_generator(1|2) and control_group_generator({0}), '
        'design_within_constraints({0},{1}), exhaustive_search, greedy_search, search_results, plus one ENVIRONMENT action: another '
        'matched-markets object (other parameters) built on the same data object installs its geo index; and after every search / retrieval the CALLER empties the returned list and the group sets of the returned design records (his own containers). The reference is always '
        'a fresh object on a fresh data object. State = recursive '
        'fingerprint of every attribute of the object graph (frames/arrays byte-exact, heap lists in layout order) '
        '+ model (answer of the most recent search). On every transition: the answer (value or exception type) equals '
        'the answer of the same call on a freshly built object (search_results: the return value of the most recent '
        'search); dataclasses.asdict(parameters) equals its initial value. Plus one long linear history per input on ONE live, '
        'never-copied object (all operations in order, then in reverse order): answers against the fresh object, and the '
        'caller\'s frame, eligibility frame and parameter object unmodified after every call. '
        'evaluations = transitions, distinct_nontrivial = distinct (input, state) pairs reached.')
ASSUMPTIONS = ['copy.deepcopy of the matched-markets object is faithful (self-checked per input against the fingerprint)',
               'answers are compared through a canonical form: designs as (sorted T, sorted C, score, diag.x, diag.y)']


def designs(res):
    return tuple((tuple(sorted(map(str, d.treatment_geos))), tuple(sorted(map(str, d.control_geos))),
                  tuple(repr(float(s)) for s in d.score.score), fp(d.diag.x), fp(d.diag.y)) for d in res)


def take(res):
    """Record the designs of a returned result list, then do with the list what a caller may do with HIS list: empty the
    group sets of the returned design records and clear the list.  The designs retrieved later must not be affected
    (they must be 'the same designs'), i.e. the object may not hand out the containers it keeps for itself."""
    out = designs(res)
    for d in res:
        for grp in (d.treatment_geos, d.control_geos):
            if isinstance(grp, (set, list)):
                grp.clear()
    if isinstance(res, list):
        res.clear()
    return out


def ga(a):
    return tuple((k, tuple(sorted(v))) for k, v in sorted(vars(a).items()))


OPS = {
    'geos_over_budget': lambda m: tuple(sorted(m.geos_over_budget)),
    'geos_too_large': lambda m: tuple(sorted(m.geos_too_large)),
    'geos_must_include': lambda m: tuple(sorted(m.geos_must_include)),
    'geos_within_constraints': lambda m: tuple(sorted(m.geos_within_constraints)),
    'geo_assignments': lambda m: ga(m.geo_assignments),
    'treatment_group_size_range': lambda m: tuple(m.treatment_group_size_range()),
    'count_max_designs': lambda m: int(m.count_max_designs()),
    'treatment_groups_1': lambda m: tuple(tuple(sorted(t)) for t in m.treatment_group_generator(1)),
    'treatment_groups_2': lambda m: tuple(tuple(sorted(t)) for t in m.treatment_group_generator(2)),
    'control_groups_T0': lambda m: tuple(tuple(sorted(c)) for c in m.control_group_generator({0})),
    # a listing that the caller ABANDONS after the first element (generators left half-consumed)
    'peek_control_groups_T0': lambda m: (lambda it: tuple(sorted(next(it, ()))))(m.control_group_generator({0})),
    'peek_treatment_groups_2': lambda m: (lambda it: tuple(sorted(next(it, ()))))(m.treatment_group_generator(2)),
    'design_within_constraints_T0_C1': lambda m: bool(m.design_within_constraints({0}, {1})),
    'exhaustive_search': lambda m: take(m.exhaustive_search()),
    'greedy_search': lambda m: take(m.greedy_search()),
    'search_results': lambda m: take(m.search_results()),
}
SEARCHES = ('exhaustive_search', 'greedy_search')
OPNAMES = list(OPS)
ENV_OP = 'ENV:another_object_uses_the_shared_data_object'
ENV_KW = {'n_geos_max': 2, 'n_designs': 1}


def interfere(m):
    """Environment action: a second matched-markets object (other parameters, same window) built on THIS object's data
    object looks up its geo assignments, i.e. installs its own geo index and arrays in the shared data object."""
    from matched_markets.methodology.tbrmatchedmarkets import TBRMatchedMarkets
    other = TBRMatchedMarkets(m.data, sc.params(ENV_KW))
    try:
        other.geo_assignments
    except ValueError:
        pass


def call(m, op):
    try:
        return ('val', OPS[op](m))
    except Exception as e:
        return ('exc', type(e).__name__)


def canon(m):
    return fp(m)


def cases(tier, seed):
    d = 2 if tier == 'thorough' else 1
    out = []
    ps = [{'name': 'A', 'G': 3, 'T': 12}, {'name': 'B', 'G': 4, 'T': 12}]
    if seed:
        ps.append({'name': 'C', 'G': 3, 'T': 12, 'seed': seed})
    for p in ps:
        for c in spaces.dev_configs(p, d, INCLUDE, base_kw={'n_designs': 3}, k_values=(1,)):
            out.append(c)
    p4 = {'name': 'B', 'G': 4, 'T': 12}
    for c in spaces.dev_configs(p4, 1, INCLUDE, base_kw={'n_designs': 3}, k_values=(), with_matrix_level=False):
        for pr in spaces.PRIORS:      # non-initial state: the data object already served another matched-markets object
            out.append(dict(c, prior=pr, deviations=c['deviations'] + 1))
    if tier != 'thorough':   # a few hand-picked 2-deviation inputs that exercise fixed geos + unspecified ranges
        p = {'name': 'B', 'G': 4, 'T': 12}
        for rows, kw in [([[1, 1, 1], [1, 1, 0], [1, 1, 1], [1, 0, 1]], {'geo_ratio_tolerance': 1.0}),
                         ([[0, 1, 0], [1, 1, 1], [1, 0, 0], [1, 1, 1]], {}),
                         ([[1, 1, 1], [0, 1, 1], [1, 1, 1], [1, 1, 1]], {'budget_range': list(spaces.budget_alphabet(p)[1])}),
                         ([[1, 1, 1], [1, 1, 1], [1, 1, 1], [1, 1, 1]], {'n_geos_max': 3, 'treatment_share_range': [0.1, 0.4]})]:
            out.append({'panel': p, 'rows': rows, 'nomatrix': False, 'extra': None, 'kw': dict(kw, n_designs=3), 'deviations': 2})
    return out


def run_case(case):
    try:
        m0, par0 = sc.build_mm(case)
    except Exception as e:
        return {'viol': [], 'nontrivial': False, 'outcome': 'construct:' + type(e).__name__, 'counts': {'inputs_rejected': 1}}
    par_before = dataclasses.asdict(par0)
    viol = []
    if canon(copy.deepcopy(m0)) != canon(m0):
        raise RuntimeError('deepcopy of the matched-markets object is not faithful')
    fresh = {}
    # The reference is always a freshly built object on a FRESH data object: whatever an earlier or a concurrent
    # matched-markets object left in a shared data object must not influence any answer (anchor: the assignments
    # property re-derives and re-installs the geo index on every access).
    fresh_case = {k: v for k, v in case.items() if k != 'prior'}
    for op in OPNAMES:
        m, _ = sc.build_mm(fresh_case)
        fresh[op] = call(m, op)

    def step(m, model, op):
        if op == ENV_OP:
            interfere(m)
            return model, [], (op,)
        par_pre = dataclasses.asdict(m.parameters)
        got = call(m, op)
        exp = fresh[op]
        if op == 'search_results' and model is not None:
            exp = model
        v = []
        if got != exp:
            if got[0] == 'exc' or exp[0] == 'exc':
                what = '%s -> %s, expected %s' % (op, got[:2] if got[0] == 'exc' else 'a value', exp[:2] if exp[0] == 'exc' else 'a value')
            else:
                what = '%s answers differently: %r vs expected %r' % (op, _short(got[1]), _short(exp[1]))
            kind = ('results-differ-from-last-search' if op == 'search_results' and model is not None
                    else 'answer-differs-from-fresh-object')
            v.append(('C10:%s:%s' % (kind, op), what))
        if dataclasses.asdict(m.parameters) != par_pre:
            after = dataclasses.asdict(m.parameters)
            diff = {k: (par_pre[k], after[k]) for k in after if after[k] != par_pre[k]}
            v.append(('C10:parameters-modified-by:' + op, 'parameter object changed by %s: %s' % (op, diff)))
        model2 = got if (op in SEARCHES and got[0] == 'val') else model   # a search that raised stores nothing
        return model2, v, (op, got[0], len(got[1]) if got[0] == 'val' and isinstance(got[1], tuple) else got[1])

    r = bfs.explore(m0, None, OPNAMES + [ENV_OP], step, canon, max_states=400)
    for x in r['violations']:
        viol.append({'key': x['key'], 'msg': x['msg'] + ' | history: ' + repr(x['hist'])})
    # linear run on un-copied objects: caller-owned inputs stay untouched
    df = sc.frame(case['panel'])
    df_before = df.copy(deep=True)
    ge = sc.eligibility(case)
    ge_before = ge.data.copy(deep=True) if ge is not None else None
    par = sc.params(case['kw'])
    from matched_markets.methodology.tbrmmdata import TBRMMData
    from matched_markets.methodology.tbrmatchedmarkets import TBRMatchedMarkets
    try:
        mm = TBRMatchedMarkets(TBRMMData(df, 'sales', ge), par)
        last = None
        # one long history on ONE live, never-copied object (identity-keyed caches stay warm): every operation once in
        # alphabet order, then once in reverse order; answers against the fresh object / the last search
        for op in OPNAMES + OPNAMES[::-1]:
            par_pre = dataclasses.asdict(par)
            got = call(mm, op)
            exp = fresh[op]
            if op == 'search_results' and last is not None:
                exp = last
            if got != exp:
                viol.append({'key': 'C10:live-object-history:' + op, 'msg': 'on a never-copied object, %s after a long history answers %s, expected %s' % (
                    op, _short(got), _short(exp))})
            if op in SEARCHES and got[0] == 'val':
                last = got
            if not df.equals(df_before):
                viol.append({'key': 'C10:input-frame-modified-by:' + op, 'msg': 'the caller\'s data frame was modified'})
            if ge is not None and not ge.data.equals(ge_before):
                viol.append({'key': 'C10:eligibility-frame-modified-by:' + op, 'msg': 'the eligibility frame was modified'})
            if dataclasses.asdict(par) != par_pre:
                viol.append({'key': 'C10:parameters-modified-by:' + op, 'msg': 'caller\'s parameter object changed: now %s' % (
                    {k: v for k, v in dataclasses.asdict(par).items() if v != par_pre[k]},)})
    except Exception:
        pass
    seen = set()
    uniq = []
    for v in viol:
        if v['key'] not in seen:
            seen.add(v['key'])
            uniq.append(v)
    return {'viol': uniq, 'nontrivial': r['states'] >= 2, 'outcome': [r['states'], r['closure_reached']],
            'counts': {'states': r['states'], 'transitions': r['transitions'], 'inputs_closed': int(r['closure_reached']),
                       'max_depth_sum': r['max_depth']},
            'sample_history': r['samples'][0] if r['samples'] else None}


def _short(v):
    s = repr(v)
    return s if len(s) < 300 else s[:300] + '...'


def run(tier, seed, jobs):
    cs = cases(tier, seed)
    res = engine.explore_cases(cs, 'mc.props.c10', jobs=jobs, chunksize=1)
    cov = res.coverage
    cnt = cov['counters']
    cov['inputs'] = cov['evaluations']
    cov['states'] = cnt.get('states', 0)
    cov['transitions'] = cnt.get('transitions', 0)
    cov['traces_validated_against_impl'] = cov['transitions']
    cov['closure_reached'] = cnt.get('inputs_closed', 0) + cnt.get('inputs_rejected', 0) == cov['inputs']
    cov['exhaustive'] = cov['exhaustive'] and cov['closure_reached']
    cov['evaluations'] = cov['transitions']
    cov['distinct_nontrivial'] = cov['states']
    cov['samples'] = [{'input': s['case'], 'closure [states, reached]': s['outcome'],
                       'alphabet': OPNAMES} for s in cov['samples'][:3]]
    return res


def replay(case):
    return run_case(case)['viol']


explain = sc.explain
