"""C11 - count_max_designs equals the size of the enumerated design space."""
import itertools

from mc import engine, spaces, searchcore as sc
from mc.ref import elig as relig

ID = 'C11'
LEVEL = 'exploration'
RULE = ('Engine A: ALL eligibility matrices over 7 row types for G <= 3 | 4 geos (7^G, every arrangement, no symmetry '
        'argument) and for G = 5 | 5,6 one arrangement per class-count vector, x size-range / geo-ratio settings '
        '(12 | 60; for G=4 quick 2, G=5 2 | 12; boundary ratios 1/2, 2/3, 2, 3 included; plus the complete 6 x 6 x 4 grid treatment range x control range x ratio tolerance on one arrangement per class-count vector of 4 geos (quick: vectors over the row types ctx, c_fixed, ct, tx)), x n_geos_max in {-, 3}. Plus MANY geos (32-40 | 30-44 geos, 4 class mixes x 8 settings): exact count vs a dynamic-programme reference (no enumeration). Plus HISTORIES on one object (parameters changed three times: new parameter object, in-place edit, new object; count, generators and reference compared after every change). Three-way oracle: fast count == '
        'number of (T,C) pairs listed by the real generators over treatment_group_size_range() (no duplicates) == '
        'length of the reference enumeration (itertools.product over per-geo options, exact rational size/ratio '
        'filters). Non-trivial = count > 0 and a non-free row or a size/ratio setting present; distinct = distinct case.')
ASSUMPTIONS = ['panel values are irrelevant to counting (one fixed panel per G)',
               'reference enumeration over the admitted geos reported by geos_within_constraints']

SETTINGS_Q = [{}, {'treatment_geos_range': [2, 3]}, {'control_geos_range': [2, 2]}, {'geo_ratio_tolerance': 0.5},
              {'geo_ratio_tolerance': 1.0}, {'geo_ratio_tolerance': 2.0},
              {'treatment_geos_range': [1, 1], 'control_geos_range': [1, 2], 'geo_ratio_tolerance': 1.0},
              {'treatment_geos_range': [1, 2], 'control_geos_range': [2, 3]}, {'treatment_geos_range': [3, 4]},
              {'control_geos_range': [1, 1], 'geo_ratio_tolerance': 0.25},
              {'treatment_geos_range': [2, 2], 'geo_ratio_tolerance': 0.5}, {'control_geos_range': [3, 5]}]


def settings(tier, grid=False):
    if tier != 'thorough' and not grid:
        return SETTINGS_Q
    out = list(SETTINGS_Q)
    ranges = [None, [1, 1], [1, 2], [2, 2], [2, 4], [3, 3]]
    tols = [None, 0.5, 1.0, 2.0]
    for tr in ranges:
        for cr in ranges:
            for gt in tols:
                kw = {}
                if tr:
                    kw['treatment_geos_range'] = tr
                if cr:
                    kw['control_geos_range'] = cr
                if gt:
                    kw['geo_ratio_tolerance'] = gt
                if kw not in out:
                    out.append(kw)
    return out if grid else out[:60]


def cases(tier, seed):
    thorough = tier == 'thorough'
    out = []
    rows7 = [list(r) for r in relig.ROWS7]
    for G in ((1, 2, 3, 4) if thorough else (1, 2, 3)):
        p = {'name': 'A', 'G': G, 'T': 10}
        for mat in itertools.product(rows7, repeat=G):
            for kw in settings(tier):
                out.append({'panel': p, 'rows': list(mat), 'nomatrix': False, 'extra': None, 'kw': kw})
    # G = 4 (quick): three settings; G = 5 (6): one arrangement per class-count vector
    if not thorough:
        p = {'name': 'A', 'G': 4, 'T': 10}
        for mat in itertools.product(rows7, repeat=4):
            for kw in (SETTINGS_Q[0], SETTINGS_Q[6]):
                out.append({'panel': p, 'rows': list(mat), 'nomatrix': False, 'extra': None, 'kw': kw})
    # the whole size-range x size-range x ratio-tolerance grid (6 x 6 x 4 settings) on one arrangement per class-count
    # vector of 4 geos (counting is symmetric in the arrangement; all arrangements are covered above for fewer settings)
    import json
    p = {'name': 'A', 'G': 4, 'T': 10}
    have = {json.dumps(c, sort_keys=True) for c in out if c['panel']['G'] == 4}
    grid_rows = rows7 if thorough else [[1, 1, 1], [1, 0, 0], [1, 1, 0], [0, 1, 1]]    # quick: ctx, c_fixed, ct, tx
    for mat in itertools.combinations_with_replacement(grid_rows, 4):
        for kw in settings(tier, grid=True):
            c = {'panel': p, 'rows': list(mat), 'nomatrix': False, 'extra': None, 'kw': kw}
            if json.dumps(c, sort_keys=True) not in have:
                out.append(c)
    # HISTORIES on one object: for every 4-geo class-count vector (quick: over ctx, c_fixed, ct, tx) the parameters are changed
    # three times (new object, in-place edit, new object) and count / generators / reference compared after every change
    hist = [{'control_geos_range': [2, 3]}, {'geo_ratio_tolerance': 0.5}, {'treatment_geos_range': [1, 2], 'control_geos_range': [1, 1], 'geo_ratio_tolerance': 1.0}]
    for mat in itertools.combinations_with_replacement(grid_rows, 4):
        for kw in ({}, {'treatment_geos_range': [1, 2]}, {'geo_ratio_tolerance': 1.0}):
            out.append({'panel': p, 'rows': list(mat), 'nomatrix': False, 'extra': None, 'kw': kw, 'history': hist})
    # MANY geos (30-44): the design space is far too large to list, the count must still be the exact integer (binomials of
    # this size are not exactly representable in floating point); reference = dynamic programme over the geos
    big_settings = [{}, {'treatment_geos_range': [1, 1], 'control_geos_range': [14, 14]}, {'treatment_geos_range': [1, 2], 'control_geos_range': [16, 17]},
                    {'treatment_geos_range': [2, 3], 'geo_ratio_tolerance': 8.0}, {'control_geos_range': [15, 15]}, {'treatment_geos_range': [15, 16]},
                    {'geo_ratio_tolerance': 0.5}, {'treatment_geos_range': [3, 3], 'control_geos_range': [20, 30]}]
    for G in ((30, 32, 34, 37, 40, 44) if thorough else (32, 37, 40)):
        pb = {'name': 'A', 'G': G, 'T': 10}
        mixes = [[[1, 1, 1]] * G, [[1, 1, 1]] * (G - 3) + [[1, 0, 1]] * 2 + [[0, 1, 0]], [[1, 1, 1]] * (G - 1) + [[1, 1, 0]],
                 [[1, 1, 1]] * (G - 6) + [[0, 1, 1]] * 2 + [[1, 0, 1]] * 2 + [[1, 0, 0]] + [[1, 1, 0]]]
        for mat in mixes:
            for kw in big_settings:
                out.append({'panel': pb, 'rows': [list(r) for r in mat], 'nomatrix': False, 'extra': None, 'kw': kw, 'big': True})
    for G in ((5, 6) if thorough else (5,)):
        p = {'name': 'A', 'G': G, 'T': 10}
        for mat in itertools.combinations_with_replacement(rows7, G):
            for kw in (settings(tier)[:12] if thorough else (SETTINGS_Q[3], SETTINGS_Q[7])):
                out.append({'panel': p, 'rows': list(mat), 'nomatrix': False, 'extra': None, 'kw': kw})
                if G == 5:
                    out.append({'panel': p, 'rows': list(mat), 'nomatrix': False, 'extra': None, 'kw': dict(kw, n_geos_max=3)})
    return out


def dp_count(rows, kw):
    """Reference count for MANY geos (no enumeration): dynamic programme over the geos, each choosing among the assignments
    its row allows; state = (#treatment, #control) -> number of ways (exact integers); then the size / ratio filter."""
    ways = {(0, 0): 1}
    for r in rows:
        c_ok, t_ok, x_ok = r
        nxt = {}
        for (t, c), w in ways.items():
            if c_ok:
                nxt[(t, c + 1)] = nxt.get((t, c + 1), 0) + w
            if t_ok:
                nxt[(t + 1, c)] = nxt.get((t + 1, c), 0) + w
            if x_ok:
                nxt[(t, c)] = nxt.get((t, c), 0) + w
        ways = nxt
    return sum(w for (t, c), w in ways.items() if t >= 1 and c >= 1 and relig.sizes_ok(t, c, kw))


def run_big(case):
    try:
        mm, _ = sc.build_mm(case)
        cnt = int(mm.count_max_designs())
    except ValueError:
        return {'viol': [], 'nontrivial': False, 'outcome': 'ValueError'}
    except Exception as e:
        return {'viol': [{'key': 'C11:exception:' + type(e).__name__, 'msg': '%s: %s' % (type(e).__name__, e)}], 'nontrivial': False, 'outcome': type(e).__name__}
    exp = dp_count([tuple(r) for r in case['rows']], case['kw'])
    viol = []
    if cnt != exp:
        viol.append({'key': 'C11:count-differs-from-reference:many-geos', 'msg': 'count_max_designs()=%d, exact reference count (dynamic programme over %d geos) %d; settings %s' % (
            cnt, len(case['rows']), exp, case['kw'])})
    return {'viol': viol, 'nontrivial': True, 'outcome': 'big:%d' % len(str(exp)), 'counts': {'many_geo_counts': 1}}


def run_case(case):
    if case.get('big'):
        return run_big(case)
    try:
        mm, _ = sc.build_mm(case)
    except Exception as e:
        return {'viol': [], 'nontrivial': False, 'outcome': 'construct:' + type(e).__name__}
    viol = []
    try:
        cnt = int(mm.count_max_designs())
        listing = set()
        n_listed = 0
        for n in mm.treatment_group_size_range():
            for T in mm.treatment_group_generator(n):
                for C in mm.control_group_generator(T):
                    gi = mm.data.geo_index
                    listing.add((frozenset(gi[i] for i in T), frozenset(gi[i] for i in C)))
                    n_listed += 1
        admitted = sorted(mm.geos_within_constraints)
    except ValueError as e:
        return {'viol': [], 'nontrivial': False, 'outcome': 'ValueError', 'counts': {'rejected_ValueError': 1}}
    except Exception as e:
        return {'viol': [{'key': 'C11:exception:' + type(e).__name__, 'msg': '%s: %s' % (type(e).__name__, e)}],
                'nontrivial': False, 'outcome': type(e).__name__}
    ref = sc.Ref(dict(case, method='exhaustive_search'))
    F = {(T, C) for T, C in relig.legal_designs(ref.rowd, [g for g in admitted if g in ref.rowd])
         if relig.sizes_ok(len(T), len(C), case['kw'])}
    if n_listed != len(listing):
        viol.append({'key': 'C11:generators-list-duplicates', 'msg': 'generators listed %d pairs, %d distinct' % (n_listed, len(listing))})
    if cnt != len(listing):
        viol.append({'key': 'C11:count-differs-from-generators', 'msg': 'count_max_designs()=%d but the generators list %d distinct designs' % (cnt, len(listing))})
    if listing != F:
        only_l = sorted(listing - F, key=sc._dkey)[:2]
        only_f = sorted(F - listing, key=sc._dkey)[:2]
        viol.append({'key': 'C11:generators-differ-from-reference', 'msg': 'generators list %d designs, reference enumeration %d; '
                     'only listed: %s; only in reference: %s' % (len(listing), len(F), [sc._fmt(d) for d in only_l], [sc._fmt(d) for d in only_f])})
    if cnt != len(F):
        viol.append({'key': 'C11:count-differs-from-reference', 'msg': 'count_max_designs()=%d, reference design space has %d designs' % (cnt, len(F))})
    # the same object after its size / ratio parameters were CHANGED (a new parameter object assigned, then a field of it
    # modified in place): count and generators read the live parameters and must keep agreeing with each other
    if case.get('history'):
        import dataclasses
        for step, kw2 in enumerate(case['history']):
            try:
                if step % 2 == 0:
                    mm.parameters = sc.params(kw2)
                else:
                    for k in ('treatment_geos_range', 'control_geos_range', 'geo_ratio_tolerance'):
                        v = kw2.get(k)
                        setattr(mm.parameters, k, tuple(v) if isinstance(v, list) else v)
                cnt2 = int(mm.count_max_designs())
                lst2 = set()
                for n in mm.treatment_group_size_range():
                    for T in mm.treatment_group_generator(n):
                        for C in mm.control_group_generator(T):
                            gi = mm.data.geo_index
                            lst2.add((frozenset(gi[i] for i in T), frozenset(gi[i] for i in C)))
            except ValueError:
                continue
            F2 = {(T, C) for T, C in relig.legal_designs(ref.rowd, [g for g in admitted if g in ref.rowd])
                  if relig.sizes_ok(len(T), len(C), kw2)}
            if cnt2 != len(lst2) or lst2 != F2:
                viol.append({'key': 'C11:after-parameter-change', 'msg': 'after changing the parameters of the same object to %s: count_max_designs()=%d, '
                             'generators list %d designs, reference %d' % (kw2, cnt2, len(lst2), len(F2))})
                break
    nonfree = any(r != [1, 1, 1] for r in case['rows'])
    return {'viol': viol, 'nontrivial': cnt > 0 and (nonfree or bool(case['kw'])), 'outcome': min(cnt, 40),
            'counts': {'designs_enumerated': len(F)}}


def run(tier, seed, jobs):
    return engine.explore_cases(cases(tier, seed), 'mc.props.c11', jobs=jobs)


def replay(case):
    return run_case(case)['viol']


explain = sc.explain
