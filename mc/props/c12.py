"""C12 - search results are invariant to how the input is presented (metamorphic)."""
import json

import pandas as pd

from mc import engine, spaces, searchcore as sc, panels

from matched_markets.methodology.geoeligibility import GeoEligibility
from matched_markets.methodology.tbrmatchedmarkets import TBRMatchedMarkets
from matched_markets.methodology.tbrmmdata import TBRMMData

ID = 'C12'
LEVEL = 'exploration'
INCLUDE = spaces.C02_SIX + ['n_geos_max', 'n_pretest_max']
RULE = ('Engine A (metamorphic): every base case of DEV(3,d) u DEV(4,d) (d = 1 | 2; + hand-picked 2-deviation cases in '
        'quick; + panels with duplicate (geo,date) rows and with a missing cell), both searches, is re-run under 23 presentations: dates as integer day numbers starting at 1 / 95 / -5 (digit-count boundaries, zero), 7 row permutations (reverse, rotation, interleave, 4 fixed pseudo-random shuffles), '
        '3 date offsets (+1 d, -400 d, +3653 d), IDs int<->str / object column of ints / categorical, 2 renamings that reverse the lexicographic order '
        '(eligibility renamed alike), scale c in {2^-20, 2^-3, 2, 2^10, 2^30} with the budget range scaled alike. Oracle: same designs '
        'after mapping IDs back (groups, verdicts, rounded correlation; impact and last score entry equal, or scaled '
        'by c / 1/c; unchanged last entry when the exhaustive search has a budget range; 1e-7 relative under scaling). '
        'A mismatch under renaming or scaling is only reported when the base result has no score tie within tolerance at the differing positions; row permutations, date offsets and int<->str IDs are compared STRICTLY (no tie tolerance), also on a panel with two identical geos carrying the IDs 2 and 10. '
        'Non-trivial = base search returned >= 1 design; distinct = distinct base case.')
ASSUMPTIONS = ['scale factors are powers of two (exact), statsmodels/scipy arithmetic under scaling compared at 1e-7',
               'values: fixed integer panels']

RENAMES = [lambda g, G: 'g%02d' % (G - 1 - g), lambda g, G: chr(ord('z') - g) * (1 + g % 2)]


def search(case, rows=None, idmap=None, id_type='int', scale=1.0, int_dates=None):
    """Run one search on a transformed presentation; designs reported with IDs mapped back to the base IDs."""
    p = case['panel']
    G = p['G']
    base_rows = panels.rows(p) if rows is None else rows
    base_ids = case.get('ids')          # integer IDs other than 0..G-1 (e.g. 2 and 10: numeric and string order differ)
    idmap = idmap or ((lambda g: base_ids[g]) if base_ids else (lambda g: g))
    inv = {str(idmap(g)): str(g) for g in range(G)}
    geo_col = [idmap(r[1]) for r in base_rows]
    if id_type == 'str':
        geo_col = [str(g) for g in geo_col]
    elif id_type == 'objint':       # the same integers held in an object-dtype column
        geo_col = pd.Series(geo_col, dtype=object)
    elif id_type == 'category':     # the IDs as a categorical column of strings
        geo_col = pd.Series([str(g) for g in geo_col]).astype('category')
    if int_dates is None:
        date_col = pd.to_datetime([r[0] for r in base_rows])
    else:       # the dates as integer day numbers: day index + offset (1.., 101.., -49..: digit-count boundaries and zero)
        import datetime
        d0 = min(datetime.date.fromisoformat(r[0]) for r in base_rows)
        date_col = [(datetime.date.fromisoformat(r[0]) - d0).days + int_dates for r in base_rows]
    df = pd.DataFrame({'date': date_col, 'geo': geo_col, 'sales': [r[2] * scale for r in base_rows]})
    ge = None
    if not case.get('nomatrix'):
        ids, rr = [], []
        for g, r in enumerate(case['rows']):
            if r is not None:
                ids.append(idmap(g) if id_type in ('int', 'objint') else str(idmap(g)))
                rr.append(r)
        if case.get('extra') is not None:
            ids.append(sc.EXTRA_ID)
            rr.append(case['extra'])
        ge = GeoEligibility(pd.DataFrame({'geo': ids, 'control': [r[0] for r in rr], 'treatment': [r[1] for r in rr],
                                          'exclude': [r[2] for r in rr]}))
    kw = dict(case['kw'])
    if scale != 1.0 and 'budget_range' in kw:
        kw['budget_range'] = [b * scale for b in kw['budget_range']]
    par = sc.params(kw)
    try:
        mm = TBRMatchedMarkets(TBRMMData(df, 'sales', ge), par)
        res = getattr(mm, case['method'])()
    except Exception as e:
        return ('exc', type(e).__name__)
    out = []
    for d in res:
        out.append({'T': sorted(inv.get(g, '?' + g) for g in d.treatment_geos),
                    'C': sorted(inv.get(g, '?' + g) for g in d.control_geos),
                    'score': [float(v) for v in d.score.score], 'corr': float(d.diag.corr),
                    'ri': float(d.diag.required_impact)})
    return ('ok', out)


def shuffled(rows, k):
    """A fixed pseudo-random permutation (LCG, Fisher-Yates) - in particular the order in which geos first APPEAR changes."""
    from mc.panels import _lcg
    g = _lcg(1000 + k)
    out = list(rows)
    for i in range(len(out) - 1, 0, -1):
        j = next(g) % (i + 1)
        out[i], out[j] = out[j], out[i]
    return out


def shift(rows, days):
    import datetime
    return [((datetime.date.fromisoformat(r[0]) + datetime.timedelta(days=days)).isoformat(), r[1], r[2]) for r in rows]


def compare(base, other, c, budgeted, tol, strict=False):
    """-> None or text.  c = scale factor applied to the responses of `other`.  strict: ties are NOT tolerated (the
    presentation leaves every value and the order of the geo IDs as strings unchanged, so even tie-breaking must agree)."""
    if base[0] != other[0]:
        return 'outcome %s vs %s' % (base[:2] if base[0] == 'exc' else 'designs', other[:2] if other[0] == 'exc' else 'designs')
    if base[0] == 'exc':
        return None if base[1] == other[1] else 'exception %s vs %s' % (base[1], other[1])
    b, o = base[1], other[1]
    if len(b) != len(o):
        return 'number of designs %d vs %d' % (len(b), len(o))
    for i, (x, y) in enumerate(zip(b, o)):
        same_groups = x['T'] == y['T'] and x['C'] == y['C']
        last_exp = x['score'][5] if budgeted else x['score'][5] / c
        ok = (same_groups and x['score'][:4] == y['score'][:4] and sc.close(x['score'][4], y['score'][4], 1e-12)
              and sc.close(y['score'][5], last_exp, tol) and sc.close(y['corr'], x['corr'], tol)
              and sc.close(y['ri'], x['ri'] * c, tol))
        if not ok:
            # tolerate a reordering among designs whose base scores tie
            ties = [z for z in b if all(sc.close(u, v, 1e-9) for u, v in zip(z['score'], x['score']))]
            if not strict and len(ties) > 1 and any(z['T'] == y['T'] and z['C'] == y['C'] for z in ties):
                continue
            return 'position %d: base T=%s C=%s score=%s ri=%r | transformed T=%s C=%s score=%s ri=%r (scale %g)' % (
                i, x['T'], x['C'], x['score'], x['ri'], y['T'], y['C'], y['score'], y['ri'], c)
    return None


def cases(tier, seed):
    d = 2 if tier == 'thorough' else 1
    out = []
    ps = [{'name': 'A', 'G': 3, 'T': 12}, {'name': 'B', 'G': 4, 'T': 12}]
    if seed:
        ps.append({'name': 'C', 'G': 3, 'T': 12, 'seed': seed})
    for p in ps:
        out += list(spaces.with_methods(spaces.dev_configs(p, d, INCLUDE, base_kw={'n_designs': 4}, with_matrix_level=False)))
    # panels with several rows per (geo, date) (averaged by the documented pivot) and with a missing cell
    for p in ({'name': 'B', 'G': 3, 'T': 12, 'variant': 'dup'}, {'name': 'A', 'G': 3, 'T': 12, 'variant': 'missing'}):
        out += list(spaces.with_methods(spaces.dev_configs(p, 1 if tier != 'thorough' else 2, ['budget_range', 'n_pretest_max', 'volume_ratio_tolerance'],
                                                           base_kw={'n_designs': 4}, with_matrix_level=False)))
    if tier != 'thorough':
        p = {'name': 'B', 'G': 4, 'T': 12}
        b = spaces.budget_alphabet(p)
        extra = [([[1, 1, 1], [1, 1, 0], [0, 1, 1], [1, 0, 1]], {'geo_ratio_tolerance': 1.0}),
                 ([[0, 1, 0], [1, 1, 1], [1, 0, 0], [1, 1, 1]], {'volume_ratio_tolerance': 4.0}),
                 ([[1, 1, 1], [1, 1, 1], None, [1, 1, 1]], {'budget_range': list(b[1])}),
                 ([[1, 1, 1], [1, 1, 1], [1, 1, 1], [1, 1, 1]], {'n_geos_max': 3, 'treatment_share_range': [0.1, 0.4]}),
                 ([[1, 1, 1], [0, 1, 0], [1, 1, 1], [1, 1, 1]], {'budget_range': list(b[2]), 'n_pretest_max': 10})]
        for rows, kw in extra:
            for m in sc.METHODS:
                out.append({'panel': p, 'rows': rows, 'nomatrix': False, 'extra': None, 'kw': dict(kw, n_designs=4),
                            'deviations': 2, 'method': m})
    # exact TIES: two geos with identical series and the integer IDs 2 and 10 (numeric order 2 < 10, string order
    # '10' < '2'); row order, date shifts and int/str IDs must not even change how ties are broken
    pE = {'name': 'E', 'G': 4, 'T': 12}
    for c in spaces.with_methods(spaces.dev_configs(pE, 1, ['treatment_geos_range', 'control_geos_range', 'n_geos_max', 'n_designs'],
                                                    base_kw={'n_designs': 4}, k_values=(1, 50), with_matrix_level=False)):
        out.append(dict(c, ids=[7, 2, 10, 1]))
    for r1, r2 in (([0, 1, 1], [0, 1, 1]), ([1, 0, 1], [1, 0, 1]), ([0, 1, 1], [1, 1, 1])):
        for m in sc.METHODS:
            for k in (1, 2):
                out.append({'panel': pE, 'rows': [[1, 0, 1], r1, r2, [1, 0, 1]], 'nomatrix': False, 'extra': None,
                            'kw': {'n_designs': k, 'treatment_geos_range': [1, 1]}, 'deviations': 4, 'method': m, 'ids': [7, 2, 10, 1]})
    out = [c for c in out if spaces.precondition_ok(c)]
    out.sort(key=lambda c: (c['deviations'], c['panel']['G']))
    return out


def run_case(case):
    G = case['panel']['G']
    rows = panels.rows(case['panel'])
    base = search(case)
    budgeted = 'budget_range' in case['kw'] and case['method'] == 'exhaustive_search'
    viol = []
    n = len(rows)
    variants = [
        ('rows-reversed', dict(rows=rows[::-1])),
        ('rows-rotated', dict(rows=rows[n // 3:] + rows[:n // 3])),
        ('rows-interleaved', dict(rows=rows[1::2] + rows[0::2])),
        ('rows-shuffled-1', dict(rows=shuffled(rows, 1))),
        ('rows-shuffled-2', dict(rows=shuffled(rows, 2))),
        ('rows-shuffled-3', dict(rows=shuffled(rows, 3))),
        ('rows-shuffled-4', dict(rows=shuffled(rows, 4))),
        ('dates+1d', dict(rows=shift(rows, 1))),
        ('dates-400d', dict(rows=shift(rows, -400))),
        ('dates+10y', dict(rows=shift(rows, 3653))),
        ('dates-as-day-numbers-from-1', dict(int_dates=1)),
        ('dates-as-day-numbers-from-95', dict(int_dates=95)),
        ('dates-as-day-numbers-from--5', dict(int_dates=-5)),
        ('ids-as-strings', dict(id_type='str')),
        ('ids-as-object-ints', dict(id_type='objint')),
        ('ids-as-categorical', dict(id_type='category')),
        ('renamed-1', dict(idmap=lambda g: RENAMES[0](g, G), id_type='str')),
        ('renamed-2', dict(idmap=lambda g: RENAMES[1](g, G), id_type='str')),
        ('scale-2^-3', dict(scale=0.125)),
        ('scale-2', dict(scale=2.0)),
        ('scale-2^10', dict(scale=1024.0)),
        ('scale-2^-20', dict(scale=2.0 ** -20)),
        ('scale-2^30', dict(scale=2.0 ** 30)),
    ]
    for name, kw in variants:
        c = kw.get('scale', 1.0)
        other = search(case, **kw)
        msg = compare(base, other, c, budgeted, 1e-7 if c != 1.0 else 1e-9,
                      strict=name.startswith(('rows-', 'dates', 'ids-as-')))
        if msg:
            viol.append({'key': 'C12:%s:%s' % (case['method'].split('_')[0], name), 'msg': name + ': ' + msg})
    nd = len(base[1]) if base[0] == 'ok' else 0
    return {'viol': viol, 'nontrivial': nd >= 1, 'outcome': [base[0], min(nd, 4)],
            'counts': {'transformed_runs': len(variants), 'designs_compared': nd * len(variants)}}


def run(tier, seed, jobs):
    return engine.explore_cases(cases(tier, seed), 'mc.props.c12', jobs=jobs, chunksize=2)


def replay(case):
    return run_case(case)['viol']


explain = sc.explain
