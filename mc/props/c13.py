"""C13 - greedy search never beats the exhaustive optimum (inputs without budget / share constraints)."""
from mc import engine, spaces, searchcore as sc

ID = 'C13'
LEVEL = 'exploration'
INCLUDE = ['treatment_geos_range', 'control_geos_range', 'geo_ratio_tolerance', 'volume_ratio_tolerance',
           'n_geos_max', 'n_pretest_max', 'n_designs', 'min_corr']
SUBSETS = [(), ('treatment_geos_range',), ('control_geos_range',), ('geo_ratio_tolerance',),
           ('volume_ratio_tolerance',), ('treatment_geos_range', 'control_geos_range'),
           ('control_geos_range', 'geo_ratio_tolerance'), ('geo_ratio_tolerance', 'volume_ratio_tolerance'),
           ('treatment_geos_range', 'control_geos_range', 'geo_ratio_tolerance', 'volume_ratio_tolerance')]
RULE = ('Engine A: FULL(2), FULL(3) x subsets of the four size/ratio/volume constraints x n_geos_max, DEV(4,d), '
        'DEV(5,2) without budget and share dimensions; per configuration BOTH searches run on identical inputs. '
        'Oracle: every greedy design lies in the brute-force feasible set F (legal, sizes, ratios, volume); its score '
        '<= the exhaustive best and <= the brute-force best; F empty or exhaustive empty => greedy returns nothing '
        '(ValueError counts as nothing); reference-free differential: every greedy design is among the designs the exhaustive '
        'search ranks on the same input with n_designs large; plus weakly correlated panels x min_corr in {0.8,0.95,0.999}, plus THRESH volume bounds on a share-DRIFT panel with a short window. Non-trivial = greedy returned >= 1 design and F has >= 2 designs; distinct '
        '= distinct case.')
ASSUMPTIONS = ['values: fixed integer panels', 'feasible set drawn from the admitted geos (scope S4)']


def cases(tier, seed):
    thorough = tier == 'thorough'
    T = 12
    parts = [spaces.full_configs({'name': 'A', 'G': 2, 'T': T}, subsets=SUBSETS, base_kw={'n_designs': 3}),
             spaces.full_configs({'name': 'A', 'G': 3, 'T': T}, subsets=SUBSETS if thorough else SUBSETS[:5],
                                 base_kw={'n_designs': 3}, ngm_values=(None, 2) if thorough else (None,)),
             spaces.dev_configs({'name': 'B', 'G': 4, 'T': T}, 3 if thorough else 2, INCLUDE, base_kw={'n_designs': 3})]
    if thorough:
        parts.append(spaces.full_configs({'name': 'B', 'G': 3, 'T': T}, subsets=SUBSETS, base_kw={'n_designs': 3}))
        parts.append(spaces.dev_configs({'name': 'B', 'G': 5, 'T': T}, 2, INCLUDE, base_kw={'n_designs': 3}))
    # share-DRIFT panel, short window: volume bounds between all critical values of the all-dates and windowed readings
    parts.append(spaces.threshold_space({'name': 'D', 'G': 4, 'T': T}, methods=('exhaustive_search',),
                                        base_kw={'n_designs': 3, 'n_pretest_max': 6}, parts=('volume',)))
    parts.append(spaces.weak_space(k_values=(1, 3)))
    if seed:
        parts.append(spaces.dev_configs({'name': 'C', 'G': 3, 'T': T, 'seed': seed}, 2, INCLUDE, base_kw={'n_designs': 3}))
    out = [c for part in parts for c in part if spaces.precondition_ok(c)]
    out.sort(key=lambda c: (c['deviations'], c['panel']['G']))
    return out


def run_case(case):
    cg = dict(case, method='greedy_search')
    ce = dict(case, method='exhaustive_search')
    og = sc.observe(cg, want_admitted=False)
    oe = sc.observe(ce)
    if oe['stage'] == 'data':
        return {'viol': [], 'nontrivial': False, 'outcome': 'data-rejected'}
    ref = sc.Ref(case)
    viol, info = sc.oracle_greedy_vs_exhaustive(case, ref, og, oe)
    ng = len(og['designs'] or ())
    if ng and oe['exc'] is None:
        # reference-free differential, literally the statement: the set RANKED by the exhaustive search (same input, but
        # n_designs large enough to keep every design it evaluates and accepts) must contain every greedy design
        oall = sc.observe(dict(ce, kw=dict(case['kw'], n_designs=100000)), want_admitted=False)
        if oall['exc'] is None:
            ranked = {(frozenset(d['T']), frozenset(d['C'])) for d in oall['designs']}
            for i, d in enumerate(og['designs']):
                g = (frozenset(d['T']), frozenset(d['C']))
                if g not in ranked:
                    viol.append({'key': 'C13:greedy-outside-exhaustive-ranked-set',
                                 'msg': 'greedy design #%d %s is not among the %d designs the exhaustive search ranks on the same input' % (
                                     i, sc._fmt(g), len(ranked))})
    ne = len(oe['designs'] or ())
    same_best = bool(ng and ne and og['designs'][0]['T'] == oe['designs'][0]['T'] and og['designs'][0]['C'] == oe['designs'][0]['C'])
    return {'viol': viol, 'nontrivial': ng >= 1 and info.get('F_any', 0) >= 2,
            'outcome': [og['exc']['type'] if og['exc'] else 'ok', oe['exc']['type'] if oe['exc'] else 'ok',
                        min(ng, 2), min(ne, 2), same_best],
            'counts': {'greedy_designs': ng, 'greedy_found_the_optimum': int(same_best),
                       'greedy_strictly_worse': int(bool(ng and ne and not same_best))}}


def run(tier, seed, jobs):
    return engine.explore_cases(cases(tier, seed), 'mc.props.c13', jobs=jobs)


def replay(case):
    return run_case(case)['viol']


explain = sc.explain
