"""C14 - results ordered best-first and capped; the bounded priority container keeps the top k per key."""
import copy

from mc import bfs, engine, spaces, searchcore as sc
from mc.fingerprint import fp

from matched_markets.methodology import heapdict

ID = 'C14'
LEVEL = 'model_checking'
RULE = ('Engine B: explicit-state BFS over the real HeapDict for capacities k in {0,1,2,3}: alphabet = push(key,item) '
        'for 2 keys x 5 items (values 0,1,1\',2,2\': equal-but-distinguishable items of a class that only defines '
        '__lt__, like the design class) and get_result(); state = exact heap layout per key (list order) + reference '
        'model (per key the sorted top-k multiset of pushed values); BFS to CLOSURE (the layout space is finite '
        'because the heap is bounded; a depth/state cap guards against an unbounded buggy container and is reported). '
        'On every transition: get_result equals the model (k largest as a multiset, descending), reading twice gives '
        'the same answer, reading (and mutating the returned snapshot) leaves the container fingerprint unchanged. '
        'Engine A part: every search of the C01 quick space with n_designs in {1,2,5}: len <= n_designs, scores '
        'non-increasing (score entries compared relatively, also on panels scaled by 2^20 / 2^-20), and with n_designs = k the result equals the first k designs of the same search with n_designs large (top-k of what the search ranks; all cases except the FULL(3) matrices with more than 2 deviations). evaluations / distinct_nontrivial count the search part (non-trivial = >= 2 designs returned).')
ASSUMPTIONS = ['container alphabet: 2 keys, 5 items, capacities 0..3; searches: fixed integer panels']


class Item:
    """Sortable only through __lt__ on .v (like TBRMMDesign); tag distinguishes equal items."""
    __slots__ = ('v', 'tag')

    def __init__(self, v, tag):
        self.v = v
        self.tag = tag

    def __lt__(self, other):
        return self.v < other.v

    def __repr__(self):
        return 'I(%d%s)' % (self.v, self.tag)

    def __deepcopy__(self, memo):
        return self


ITEMS = [Item(0, ''), Item(1, ''), Item(1, "'"), Item(2, ''), Item(2, "'")]
KEYS = ['a', 'b']
OPS = [('push', k, i) for k in KEYS for i in range(len(ITEMS))] + [('read',)]


def _fpv(v):
    if isinstance(v, Item):
        return ('I', v.v, v.tag)
    if isinstance(v, dict):
        return ('d',) + tuple(sorted((repr(k), _fpv(x)) for k, x in v.items()))
    if isinstance(v, (list, tuple)):
        return ('l',) + tuple(_fpv(x) for x in v)
    if isinstance(v, (set, frozenset)):
        return ('s',) + tuple(sorted(_fpv(x) for x in v))
    return ('v', repr(v))


def canon(h):
    # EVERY instance attribute (not only the two the current implementation has): a field the canonical form does not
    # see would merge states with different futures (exact heap layout per key, in list order)
    return tuple(sorted((k, _fpv(v)) for k, v in vars(h).items()))


def snapshot(res):
    return {k: [(it.v, it.tag) for it in v] for k, v in res.items()}


def make_step(k):
    def step(h, model, op):
        try:
            return _step(h, model, op)
        except Exception as e:      # the container itself failed: a verdict, not a harness error
            return model, [('C14:container:raises-' + type(e).__name__,
                            'capacity %d: %s during %r: %s' % (k, type(e).__name__, op, e))], 'EXC'

    def _step(h, model, op):
        viol = []
        if op[0] == 'push':
            h.push(op[1], ITEMS[op[2]])
            m = dict(model)
            m[op[1]] = tuple(sorted(m.get(op[1], ()) + (ITEMS[op[2]].v,), reverse=True)[:k])
            model2 = tuple(sorted(m.items()))
            obs = 'pushed'
        else:
            model2 = model
            obs = None
        # invariant, evaluated on every transition: what the container reports equals the reference model
        before = canon(h)
        r1 = h.get_result()
        s1 = snapshot(r1)
        exp = dict(model2)
        got = {key: [v for v, _ in items] for key, items in s1.items()}
        for key in set(exp) | set(got):
            if list(exp.get(key, ())) != got.get(key, []):
                viol.append(('C14:container:top-k', 'capacity %d: key %r reports %s, reference (k largest pushed, '
                             'descending) %s' % (k, key, got.get(key), list(exp.get(key, ())))))
        if canon(h) != before:
            viol.append(('C14:container:read-changes-state', 'get_result() changed the container: %s -> %s' % (before, canon(h))))
        for lst in r1.values():       # the snapshot is the caller's: mutating it must not reach the container
            lst.reverse()
            lst.append(ITEMS[0])
        r1['zz'] = [ITEMS[0]]
        s2 = snapshot(h.get_result())
        if s2 != s1:
            viol.append(('C14:container:read-not-repeatable', 'second get_result() differs: %s vs %s' % (s1, s2)))
        if canon(h) != before:
            viol.append(('C14:container:snapshot-aliases-state', 'mutating the returned snapshot changed the container'))
        if op[0] == 'read':
            obs = repr(sorted(got.items()))
        return model2, viol, obs
    return step


def run_container(tier):
    results = []
    viols = []
    for k in (0, 1, 2, 3):
        h = heapdict.HeapDict(size=k)
        r = bfs.explore(h, (), OPS, make_step(k), canon, max_depth=12 if tier == 'quick' else 16,
                        max_states=400000)
        for v in r['violations']:
            viols.append({'key': v['key'], 'msg': v['msg'] + ' after history ' + repr(v['hist']),
                          'case': {'kind': 'container', 'capacity': k, 'history': [list(o) for o in v['hist']]}})
        results.append((k, r))
    return results, viols


def search_cases(tier, seed):
    out = []
    for c in spaces.family_space(tier, seed, spaces.C02_SIX + ['n_geos_max', 'n_designs'], {'n_designs': 2},
                                 k_values=(1, 5), with5=False, dev_d=(2, 2)):
        out.append(c)
    # responses in other units (x 2^20, x 2^-20): the continuous score entry becomes tiny / huge; order and cap must hold
    for k in (20, -20):
        p = {'name': 'B', 'G': 4, 'T': 12, 'scale_pow': k}
        for c in spaces.with_methods(spaces.dev_configs(p, 1, spaces.C02_SIX + ['n_geos_max', 'n_designs'], base_kw={'n_designs': 3},
                                                        k_values=(1, 5, 50), with_matrix_level=False)):
            if spaces.precondition_ok(c):
                out.append(c)
    # weakly correlated panels: designs failing DIFFERENT subsets of the four tests compete (the lexicographic order of the
    # flag tuple, not the number of passed tests, decides)
    out += spaces.weak_space(methods=sc.METHODS, k_values=(2, 5, 50))
    return out


def run_case(case):
    obs = sc.observe(case, want_admitted=False)
    viol = sc.oracle_ordered_capped(case, obs)
    nd = len(obs['designs'] or ())
    k = case['kw'].get('n_designs', 1)
    if obs['exc'] is None and k <= 5 and (case['panel']['G'] != 3 or case.get('deviations', 0) <= 2):
        # the cap keeps the TOP k of what the search ranks: same search with n_designs large, first k score tuples
        full = sc.observe(dict(case, kw=dict(case['kw'], n_designs=100000)), want_admitted=False)
        if full['exc'] is None:
            exp = [d['score'] for d in full['designs'][:k]]
            got = [d['score'] for d in obs['designs']]
            if len(got) != len(exp) or any(not sc.close(a, b, abs_tol=0.0) for x, y in zip(got, exp) for a, b in zip(x, y)):
                viol.append({'key': 'C14:search:not-the-top-k', 'msg': '%s with n_designs=%d returns scores %s; the %d best of the %d designs the same '
                             'search ranks with n_designs large are %s' % (case['method'], k, got, k, len(full['designs']), exp)})
        elif full['exc']['type'] != 'ValueError':
            pass
    return {'viol': viol, 'nontrivial': nd >= 2, 'outcome': [obs['exc']['type'] if obs['exc'] else 'ok', min(nd, 5),
                                                             case['kw'].get('n_designs', 1)],
            'counts': {'designs_checked': nd, 'results_at_cap': int(nd == case['kw'].get('n_designs', 1))}}


def run(tier, seed, jobs):
    cont, cviol = run_container(tier)
    res = engine.explore_cases(search_cases(tier, seed), 'mc.props.c14', jobs=jobs)
    cov = res.coverage
    cov['states'] = sum(r['states'] for _, r in cont)
    cov['transitions'] = sum(r['transitions'] for _, r in cont)
    cov['traces_validated_against_impl'] = cov['transitions']
    cov['closure_reached'] = all(r['closure_reached'] for _, r in cont)
    cov['max_depth'] = max(r['max_depth'] for _, r in cont)
    cov['container_per_capacity'] = {str(k): {x: r[x] for x in ('states', 'transitions', 'max_depth', 'closure_reached',
                                                              'bound', 'distinct_observations')} for k, r in cont}
    cov['samples'] = [{'container_history_capacity_%d' % k: [list(o) for o in r['samples'][0]]} for k, r in cont if r['samples']][:2] + cov['samples'][:2]
    cov['exhaustive'] = cov['exhaustive'] and cov['closure_reached']
    res.violations = cviol + res.violations
    return res


def replay(case):
    if case.get('kind') == 'container':
        h = heapdict.HeapDict(size=case['capacity'])
        step = make_step(case['capacity'])
        model = ()
        out = []
        for op in case['history']:
            model, viol, _ = step(h, model, tuple(op))
            out = [{'key': k, 'msg': m} for k, m in viol]
        return out
    return run_case(case)['viol']


def explain(case):
    if case.get('kind') == 'container':
        return {'python': 'h = HeapDict(size=%d); apply %s with items %r; compare h.get_result() with the k largest per key' % (
            case['capacity'], case['history'], ITEMS)}
    return sc.explain(case)
