"""C15 - the canonical data object faithfully represents the input panel."""
import itertools
import math

import pandas as pd

from mc import engine
from mc.ref import elig as relig
from mc.ref import panel as rpanel

from matched_markets.methodology.geoeligibility import GeoEligibility
from matched_markets.methodology.tbrmmdata import TBRMMData

ID = 'C15'
LEVEL = 'exploration'
RULE = ('Engine A: (a) frames over G x T in {2x2, 3x2, 2x3 | + 3x3} with EVERY present/absent pattern of the G*T cells (and, for 2x2 / 3x2, every pattern over {observed, absent, present-with-NaN-response}) '
        '(distinct integer values, plus a tied-means variant), ID dtype int/str (+ object column of ints, mixed int/str object column, float, categorical), 3 row orders, no eligibility; (b) 3-geo '
        'frames with EVERY eligibility table over {absent + 7 row types}^3 (512), with and without an extra matrix geo '
        'that is not in the data (cx / ctx excludable, c_fixed / ct not excludable), and with a data geo missing, and with the caller\'s eligibility object already used by ANOTHER data object (panel lacking a geo, other ranking); for '
        'every constructed object EVERY ordered subset of the assignable geos as geo_index and, for 2-geo subsets, '
        'every PAIR of successive geo_index assignments (history of length 2). Oracle = reference panel model: row set, '
        'string IDs, chronological columns, zero fill, non-increasing means, shares, assignable set, ValueError exactly '
        'when a non-excludable matrix geo is missing from the data, aggregates over every index subset equal reference '
        'sums in the CURRENT index order, index-based assignments equal the reference partition by position, caller\'s '
        'frame and eligibility object unmodified. Non-trivial = object constructed and >= 1 geo-index order checked, or an expected rejection; '
        'distinct = distinct case.')
ASSUMPTIONS = ['no duplicate (geo, date) rows in the input (their aggregation is not part of the statement)',
               'cell values are small distinct integers']

VAL = {(g, t): 10 * (g + 1) + 3 * t + (g * t) % 2 for g in range(3) for t in range(3)}
VAL_TIED = dict(VAL)
VAL_TIED.update({(0, 0): 20, (0, 1): 30, (0, 2): 10, (1, 0): 30, (1, 1): 20, (1, 2): 10})   # geos 0 and 1: equal means
DATES = ['2021-05-01', '2021-05-02', '2021-05-03']
EXTRA = 'zz9'


def cases(tier, seed):
    out = []
    shapes = [(2, 2), (3, 2), (2, 3)] + ([(3, 3)] if tier == 'thorough' else [])
    for G, T in shapes:
        for mask in itertools.product([0, 1], repeat=G * T):
            if not any(mask):
                continue
            for idt, order in (('int', 'id'), ('str', 'rev'), ('int', 'mix')) if G * T <= 6 else (('int', 'mix'),):
                out.append({'G': G, 'T': T, 'mask': list(mask), 'ids': idt, 'order': order, 'elig': None, 'vals': 'distinct'})
    out.append({'G': 3, 'T': 3, 'mask': [1] * 9, 'ids': 'int', 'order': 'mix', 'elig': None, 'vals': 'tied'})
    # a missing cell may also be GIVEN: a row whose response is NaN (every pattern over {observed, absent, NaN} for 2x2 and
    # 3x2 cells with at least one NaN row and one observed cell)
    for G, T in ((2, 2), (3, 2)):
        for mask in itertools.product([0, 1, 2], repeat=G * T):
            if 2 in mask and 1 in mask:
                out.append({'G': G, 'T': T, 'mask': list(mask), 'ids': 'int', 'order': 'mix' if sum(mask) % 2 else 'id', 'elig': None, 'vals': 'distinct'})
    # ID column presentations: object column of ints, mixed int/str object column, float IDs, categorical
    for idt in ('objint', 'mixed', 'float', 'category'):
        for G, T in ((2, 2), (3, 2)):
            for mask in itertools.product([0, 1], repeat=G * T):
                if any(mask):
                    out.append({'G': G, 'T': T, 'mask': list(mask), 'ids': idt, 'order': 'mix', 'elig': None, 'vals': 'distinct'})
        out.append({'G': 3, 'T': 3, 'mask': [1] * 9, 'ids': idt, 'order': 'rev', 'elig': None, 'vals': 'tied'})
        if idt != 'float':
            for e in ({'0': [1, 1, 1], '1': [1, 0, 0], '2': [0, 1, 1]}, {'0': [0, 0, 1], '1': [1, 1, 0]}):
                out.append({'G': 3, 'T': 2, 'mask': [1] * 6, 'ids': idt, 'order': 'id', 'elig': e, 'vals': 'distinct'})
    opts = [None] + [list(r) for r in relig.ROWS7]
    for rows in itertools.product(opts, repeat=3):
        if all(r is None for r in rows):
            continue
        for extra in (None, [1, 0, 1], [1, 1, 1], [1, 0, 0], [1, 1, 0]):
            if extra is not None and tier != 'thorough' and sum(1 for r in rows if r not in (None, [1, 1, 1])) > 2:
                continue
            e = {str(g): r for g, r in enumerate(rows) if r is not None}
            if extra is not None:
                e[EXTRA] = extra
            out.append({'G': 3, 'T': 2, 'mask': [1] * 6, 'ids': 'int', 'order': 'id', 'elig': e, 'vals': 'distinct'})
            if extra is None:
                out.append(dict(out[-1], ge_used_before=True))
        # geo 1 absent from the data
        e = {str(g): r for g, r in enumerate(rows) if r is not None}
        out.append({'G': 3, 'T': 2, 'mask': [1, 1, 0, 0, 1, 0], 'ids': 'str', 'order': 'rev', 'elig': e, 'vals': 'distinct'})
    return out


def run_case(case):
    G, T = case['G'], case['T']
    V = VAL if case['vals'] == 'distinct' else VAL_TIED
    cells = [(g, t) for g in range(G) for t in range(T)]
    present = [c for c, m in zip(cells, case['mask']) if m == 1]
    nan_cells = [c for c, m in zip(cells, case['mask']) if m == 2]      # a missing cell given as a row whose response is NaN
    rows = [(DATES[t], g, float(V[(g, t)])) for g, t in present]
    ref_rows = list(rows)
    rows = rows + [(DATES[t], g, float('nan')) for g, t in nan_cells]
    if case['order'] == 'rev':
        rows = rows[::-1]
    elif case['order'] == 'mix':
        rows = rows[1::2] + rows[0::2]
    geo_col = [(str(r[1]) if case['ids'] == 'str' else r[1]) for r in rows]
    if case['ids'] == 'objint':          # integers held in an object column (frame assembled from records / read with dtype=object)
        geo_col = pd.Series(geo_col, dtype=object)
    elif case['ids'] == 'mixed':         # object column mixing integers and strings (geo 0 as int, the others as str)
        geo_col = pd.Series([(g if g == 0 else str(g)) for g in geo_col], dtype=object)
    elif case['ids'] == 'float':         # integral floats are NOT the same label: 1.0 -> '1.0'
        geo_col = [float(g) for g in geo_col]
    elif case['ids'] == 'category':
        geo_col = pd.Series([str(g) for g in geo_col]).astype('category')
    df = pd.DataFrame({'date': pd.to_datetime([r[0] for r in rows]), 'geo': geo_col, 'resp': [r[2] for r in rows]})
    before = df.copy(deep=True)
    rows = ref_rows         # the reference sees the observed cells only: a NaN response is a missing cell
    if case['ids'] == 'float':
        rows = [(r[0], float(r[1]), r[2]) for r in rows]
    dates, tab = rpanel.table(rows)
    mean = rpanel.means(tab)
    share = rpanel.shares(tab)
    geos = set(tab)
    viol = []
    ge = None
    rowd = None
    if case['elig'] is not None:
        rowd = {g: tuple(r) for g, r in case['elig'].items()}
        ge = GeoEligibility(pd.DataFrame({'geo': list(rowd), 'control': [r[0] for r in rowd.values()],
                                          'treatment': [r[1] for r in rowd.values()], 'exclude': [r[2] for r in rowd.values()]}))
    expect_err = rowd is not None and any(r[2] == 0 and g not in geos for g, r in rowd.items())
    ge_before = ge.data.copy(deep=True) if ge is not None else None
    if ge is not None and case.get('ge_used_before'):
        # NON-INITIAL state of the caller's eligibility object: it has already served ANOTHER data object built from a
        # panel that lacks geo 0 and ranks the geos differently
        rows0 = [(DATES[t], g, float(40 - 10 * g + t)) for g in range(1, 3) for t in range(2)]
        df0 = pd.DataFrame({'date': pd.to_datetime([r[0] for r in rows0]), 'geo': [r[1] for r in rows0], 'resp': [r[2] for r in rows0]})
        try:
            d0 = TBRMMData(df0, 'resp', ge)
            d0.geo_index = sorted(d0.assignable)
            d0.geo_assignments
        except ValueError:
            pass
    try:
        d = TBRMMData(df, 'resp', ge)
    except ValueError as e:
        if expect_err:
            return {'viol': [], 'nontrivial': True, 'outcome': 'rejected-as-documented'}
        return {'viol': [{'key': 'C15:unexpected-ValueError', 'msg': 'constructor raised ValueError(%s) for a valid input; elig=%s' % (e, case['elig'])}],
                'nontrivial': True, 'outcome': 'ValueError'}
    except Exception as e:
        kind = 'matrix-exceeds-data' if rowd is not None and set(rowd) - geos else 'other'
        return {'viol': [{'key': 'C15:constructor-raises-%s:%s' % (type(e).__name__, kind),
                          'msg': 'TBRMMData raised %s: %s; elig=%s data geos=%s' % (type(e).__name__, str(e)[:120], case['elig'], sorted(geos))}],
                'nontrivial': True, 'outcome': type(e).__name__}
    if expect_err:
        return {'viol': [{'key': 'C15:missing-required-geo-accepted', 'msg': 'a matrix geo that may not be excluded is missing '
                          'from the data but the object was constructed; elig=%s data geos=%s' % (case['elig'], sorted(geos))}],
                'nontrivial': True, 'outcome': 'accepted'}

    def add(key, msg):
        viol.append({'key': 'C15:' + key, 'msg': msg})
    if not df.equals(before):
        add('input-frame-modified', 'the caller\'s frame changed')
        df = before.copy(deep=True)
    if ge is not None and not ge.data.equals(ge_before):
        add('eligibility-object-modified', 'the caller\'s GeoEligibility object was modified (rows %s -> %s)' % (
            sorted(ge_before.index), sorted(ge.data.index)))
    # caller-side action: the caller goes on using HIS frame (overwrites the response column); the data object must not follow
    df['resp'] = -1.0
    idx = list(d.df.index)
    if not all(isinstance(g, str) for g in idx):
        add('ids-not-strings', 'row labels %r (types %s)' % (idx, sorted({type(g).__name__ for g in idx})))
        return {'viol': viol, 'nontrivial': True, 'outcome': 'ids-not-strings'}
    if sorted(map(str, idx)) != sorted(geos):
        add('row-set', 'rows %s, geos in input %s' % (idx, sorted(geos)))
        return {'viol': viol, 'nontrivial': True, 'outcome': 'row-set'}
    m = [mean[g] for g in idx]
    if any(a < b for a, b in zip(m, m[1:])):
        add('row-order', 'rows %s are not ordered by decreasing mean response %s' % (idx, m))
    cols = [str(c)[:10] for c in d.df.columns]
    if cols != dates:
        add('column-order', 'columns %s, expected chronological %s' % (cols, dates))
    else:
        for g in idx:
            got = [float(v) for v in d.df.loc[g].tolist()]
            if got != tab[g]:
                add('cell-values', 'row %s holds %s, expected %s (missing cells zero)' % (g, got, tab[g]))
    if d.geos_in_data != geos:
        add('geos_in_data', '%s vs %s' % (sorted(d.geos_in_data), sorted(geos)))
    gs = d.geo_share
    if sorted(gs.index) != sorted(geos) or not all(math.isclose(gs[g], share[g], rel_tol=1e-12) for g in geos):
        add('geo-share', 'geo_share %s, expected %s' % (dict(gs), share))
    if rowd is None:
        exp_as = set(geos)
        rr = {g: (1, 1, 1) for g in geos}
    else:
        rr = {g: r for g, r in rowd.items() if g in geos}
        exp_as = {g for g, r in rr.items() if r != (0, 0, 1)}
    if d.assignable != exp_as:
        add('assignable', 'assignable %s, expected %s' % (sorted(d.assignable), sorted(exp_as)))
    if set(d.geo_eligibility.data.index) != set(rr):
        add('eligibility-rows-not-reconciled', 'eligibility rows %s, expected %s' % (sorted(d.geo_eligibility.data.index), sorted(rr)))
    n_orders = 0

    def check_index(sub, tag):
        r = len(sub)
        for k in range(1, r + 1):
            for S in itertools.combinations(range(r), k):
                ts = [float(v) for v in d.aggregate_time_series(set(S))]
                es = rpanel.agg(tab, [sub[i] for i in S])
                if ts != es:
                    add('aggregate-time-series' + tag, 'geo_index=%s indices %s: %s, expected %s' % (sub, S, ts, es))
                sh = d.aggregate_geo_share(set(S))
                if not math.isclose(sh, sum(share[sub[i]] for i in S), rel_tol=1e-12):
                    add('aggregate-share' + tag, 'geo_index=%s indices %s: %r' % (sub, S, sh))
        ga = d.geo_assignments
        exp = relig.partition(rr, sub, indices=True)
        bad = [c for c in exp if getattr(ga, c) != exp[c]]
        if bad:
            add('index-assignments' + tag, 'geo_index=%s: %s' % (sub, {c: (sorted(getattr(ga, c)), sorted(exp[c])) for c in bad[:3]}))
        if list(d.geo_index) != list(sub):
            add('geo-index-not-stored' + tag, '%s vs %s' % (d.geo_index, sub))
    ordered = sorted(exp_as & d.assignable)
    for r in range(1, len(ordered) + 1):
        for sub in itertools.permutations(ordered, r):
            d.geo_index = list(sub)
            n_orders += 1
            check_index(list(sub), '')
    pairs = [list(s) for s in itertools.permutations(ordered, 2)] + [[g] for g in ordered]
    for a in pairs:           # history of length 2: the second assignment fully replaces the first
        for b in pairs:
            if a == b:
                continue
            d.geo_index = a
            d.geo_index = b
            n_orders += 1
            check_index(b, ':after-reassignment')
    # unassignable geos are refused
    for g in sorted(geos - exp_as)[:1]:
        try:
            d.geo_index = [g]
            add('unassignable-geo-accepted', 'geo_index=[%s] accepted although not assignable' % g)
        except ValueError:
            pass
        except Exception as e:
            add('unassignable-geo-raises-' + type(e).__name__, str(e)[:100])
    seen = set()
    viol = [v for v in viol if not (v['key'] in seen or seen.add(v['key']))]
    return {'viol': viol, 'nontrivial': n_orders >= 1, 'outcome': ['ok', len(geos), len(exp_as)], 'counts': {'geo_index_orders_checked': n_orders}}


def run(tier, seed, jobs):
    return engine.explore_cases(cases(tier, seed), 'mc.props.c15', jobs=jobs)


def replay(case):
    return run_case(case)['viol']
