"""C16 - eligibility tables are validated and partitioned correctly."""
import itertools

import numpy as np
import pandas as pd

from mc import engine
from mc.ref import elig as relig

from matched_markets.methodology.geoeligibility import GeoEligibility

ID = 'C16'
LEVEL = 'exploration'
RULE = ('Engine A: every table over n <= 3 | 4 geos with rows from the eight 0/1 triples (8^n), geo as column or as '
        'index, integer or string IDs, value columns in 5 other orders and with extra columns (n = 2, and n = 3 with distinct rows); malformed variants of every valid 2-geo table (each required column missing, '
        'duplicate IDs incl. 1 vs \'1\', entries 2, -1, 0.5, \'1\', NaN in every value column and row, duplicate column names); for every accepted '
        'table EVERY ordered subset of its geos including the empty one, indices False/True. Oracle: acceptance <=> '
        'reference validity predicate, rejection by ValueError; the seven classes partition the subset, each geo in '
        'the class its row encodes, all/c/t/x consistent, positions refer to the given order. Non-trivial = accepted '
        'table with an ordered subset of >= 1 geo, or a rejected table; distinct = distinct (table, subset, mode).')
ASSUMPTIONS = ['an empty ordered subset is a subset like any other: its classes are empty (indices=True with an empty '
               'list may alternatively be rejected with ValueError)']


COLORDERS = {'canonical': ['geo', 'control', 'treatment', 'exclude'], 'tce-swapped': ['geo', 'treatment', 'control', 'exclude'],
             'exclude-first': ['exclude', 'geo', 'control', 'treatment'], 'reversed': ['exclude', 'treatment', 'control', 'geo'],
             'rotated': ['geo', 'exclude', 'control', 'treatment'], 'with-extra-columns': ['note', 'treatment', 'geo', 'exclude', 'weight', 'control']}


def table(rows, ids, geo_as_index=False, colorder='canonical'):
    df = pd.DataFrame({'geo': ids, 'control': [r[0] for r in rows], 'treatment': [r[1] for r in rows],
                       'exclude': [r[2] for r in rows], 'note': ['n%d' % i for i in range(len(rows))],
                       'weight': [1 - r[0] for r in rows]})
    df = df[COLORDERS[colorder]]       # the columns are identified by NAME; their order (and extra columns) is presentation
    if geo_as_index:
        df = df.set_index('geo')
    return df


def cases(tier, seed):
    nmax = 4 if tier == 'thorough' else 3
    out = []
    for n in range(1, nmax + 1):
        for rows in itertools.product(relig.ROWS8, repeat=n):
            modes = (('col', 'str'), ('index', 'int')) if n <= 3 else (('col', 'str'),)
            if n <= 2:
                modes += (('col', 'int'), ('index', 'str'))
            for mode in modes:
                out.append({'kind': 'table', 'rows': [list(r) for r in rows], 'geo': mode[0], 'ids': mode[1]})
            if n == 2 or (n == 3 and len(set(rows)) == 3):      # column presentations: every order class + extra columns
                for k, co in enumerate(c for c in COLORDERS if c != 'canonical'):
                    out.append({'kind': 'table', 'rows': [list(r) for r in rows], 'geo': ('col', 'index')[k % 2], 'ids': 'str', 'colorder': co})
    base = [[1, 1, 1], [1, 0, 0]]
    for mal in ('no-geo', 'no-control', 'no-treatment', 'no-exclude', 'dup-ids', 'dup-ids-1-vs-str1', 'entry-2', 'entry--1',
                'entry-0.5', 'entry-str1', 'entry-nan', 'dup-column', 'entry-True', 'entry-1.0',
                'two-bad-2-and-x', 'two-bad--1-and-str1', 'two-bad-None-and-0.5', 'two-bad-2-and-nan', 'two-bad-x-and-tuple'):
        for rows in ([[1, 1, 1], [1, 0, 0]], [[0, 1, 1], [1, 1, 0]], [[0, 0, 1], [0, 1, 0]]):
            out.append({'kind': 'malformed', 'rows': rows, 'what': mal})
            if mal.startswith('entry-'):      # the bad entry in every value column and in every row
                for col in ('control', 'treatment', 'exclude'):
                    for pos in (0, 1):
                        if (col, pos) != ('control', 0):
                            out.append({'kind': 'malformed', 'rows': rows, 'what': mal, 'col': col, 'pos': pos})
    return out


def run_table(case):
    rows = [tuple(r) for r in case['rows']]
    n = len(rows)
    ids = ['g%d' % i for i in range(n)] if case['ids'] == 'str' else [10 + i for i in range(n)]
    sids = [str(i) for i in ids]
    valid = all(r != (0, 0, 0) for r in rows)
    viol = []
    counts = {'subsets_checked': 0}
    try:
        tab = table(rows, ids, case['geo'] == 'index', case.get('colorder', 'canonical'))
        tab_before = tab.copy(deep=True)
        ge = GeoEligibility(tab)
        acc = True
        if not tab.equals(tab_before) or list(tab.columns) != list(tab_before.columns) or tab.index.name != tab_before.index.name:
            viol.append({'key': 'C16:caller-table-modified', 'msg': 'the constructor modified the table it was given (rows %s)' % (rows,)})
        # caller-side action: the caller goes on editing HIS table (swaps two columns' contents); the object must not follow
        tab['control'], tab['exclude'] = tab['exclude'].copy(), tab['control'].copy()
    except ValueError:
        acc = False
    except Exception as e:
        return {'viol': [{'key': 'C16:constructor-raises-' + type(e).__name__, 'msg': 'table %s: %s' % (rows, e)}],
                'nontrivial': True, 'outcome': type(e).__name__}
    if acc != valid:
        viol.append({'key': 'C16:acceptance-mismatch', 'msg': 'table %s accepted=%s, reference validity=%s' % (rows, acc, valid)})
        return {'viol': viol, 'nontrivial': True, 'outcome': 'acceptance-mismatch'}
    if not acc:
        return {'viol': [], 'nontrivial': True, 'outcome': 'rejected', 'counts': {'tables_rejected': 1}}
    rowd = dict(zip(sids, rows))
    subsets = [None]
    for r in range(0, n + 1):
        subsets += [list(s) for s in itertools.permutations(sids, r)]
    for sub in subsets:
        for indices in (False, True):
            counts['subsets_checked'] += 1
            try:
                a = ge.get_eligible_assignments(sub, indices=indices)
            except ValueError:
                if indices and not sub:      # documented for None; tolerated for the empty list
                    continue
                viol.append({'key': 'C16:subset-rejected', 'msg': 'table %s subset %s indices=%s raised ValueError' % (rows, sub, indices)})
                continue
            except Exception as e:
                viol.append({'key': 'C16:subset-raises-' + type(e).__name__, 'msg': 'table %s subset %s indices=%s: %s' % (rows, sub, indices, e)})
                continue
            geos = sids if sub is None else sub
            exp = relig.partition(rowd, geos, indices=indices)
            bad = [k for k in exp if getattr(a, k) != exp[k]]
            if bad:
                kind = 'empty-subset' if sub == [] else 'subset'
                viol.append({'key': 'C16:%s-partition-wrong' % kind,
                             'msg': 'table %s subset %s indices=%s: %s' % (rows, sub, indices, {k: (sorted(getattr(a, k), key=str), sorted(exp[k], key=str)) for k in bad[:3]})})
    seen = set()
    viol = [v for v in viol if not (v['key'] in seen or seen.add(v['key']))]
    return {'viol': viol, 'nontrivial': True, 'outcome': ['accepted', n], 'counts': counts}


def run_malformed(case):
    rows = [tuple(r) for r in case['rows']]
    what = case['what']
    ids = ['a', 'b']
    df = table(rows, ids)
    expect = 'reject'
    if what.startswith('no-'):
        df = df.drop(columns=[what[3:]])
    elif what == 'dup-ids':
        df['geo'] = ['a', 'a']
    elif what == 'dup-ids-1-vs-str1':
        df['geo'] = pd.Series([1, '1'], dtype=object)
    elif what == 'dup-column':
        df = pd.concat([df, df[['control']]], axis=1)
    elif what.startswith('two-bad-'):
        # two illegal entries of DIFFERENT (mutually unorderable) types, in two different value columns
        a, b = {'two-bad-2-and-x': (2, 'x'), 'two-bad--1-and-str1': (-1, '1'), 'two-bad-None-and-0.5': (None, 0.5),
                'two-bad-2-and-nan': (2, np.nan), 'two-bad-x-and-tuple': ('x', (1, 2))}[what]
        c1 = df['control'].astype(object)
        c1.iloc[0] = a
        df['control'] = c1
        c2 = df['exclude'].astype(object)
        c2.iloc[1] = b
        df['exclude'] = c2
    elif what.startswith('entry-'):
        v = {'2': 2, '-1': -1, '0.5': 0.5, 'str1': '1', 'nan': np.nan, 'True': True, '1.0': 1.0}[what[6:]]
        cname = case.get('col', 'control')
        col = df[cname].astype(object)
        col.iloc[case.get('pos', 0)] = v
        df[cname] = col
        if what in ('entry-True', 'entry-1.0'):
            expect = 'either'     # True == 1 and 1.0 == 1: in {0,1} by value; left unspecified
    try:
        GeoEligibility(df)
        got = 'accept'
    except ValueError:
        got = 'reject'
    except Exception as e:
        if expect == 'either':
            return {'viol': [], 'nontrivial': True, 'outcome': 'unspecified'}
        return {'viol': [{'key': 'C16:malformed-raises-' + type(e).__name__, 'msg': '%s on %s: %s: %s' % (what, rows, type(e).__name__, e)}],
                'nontrivial': True, 'outcome': type(e).__name__}
    viol = []
    if expect == 'reject' and got != 'reject':
        viol.append({'key': 'C16:malformed-accepted:' + what, 'msg': 'malformed table (%s) over rows %s was accepted' % (what, rows)})
    return {'viol': viol, 'nontrivial': True, 'outcome': [what, got]}


def run_case(case):
    return run_table(case) if case['kind'] == 'table' else run_malformed(case)


def run(tier, seed, jobs):
    res = engine.explore_cases(cases(tier, seed), 'mc.props.c16', jobs=jobs)
    res.coverage['evaluations_incl_subsets'] = res.coverage['counters'].get('subsets_checked', 0)
    return res


def replay(case):
    return run_case(case)['viol']
