"""C17 - design parameters are accepted exactly when in their documented domain."""
import dataclasses
import itertools
import math

import numpy as np

from mc import engine

from matched_markets.methodology.tbrmmdesignparameters import TBRMMDesignParameters

ID = 'C17'
LEVEL = 'exploration'
RULE = ('Engine A: per field a boundary grid (each bound, its two floating-point neighbours, 0, +-1, +-inf, NaN, huge '
        'ints, integer-valued and non-integer floats, None, str, list, bool, numpy scalars; for range fields a grid of '
        'pairs incl. wrong arity/order/container), other fields at valid defaults; ALL pairs of fields over a reduced '
        'grid (one valid, one boundary, one invalid value each); documented defaults; equality on every single-field '
        'difference. Oracle: reference three-valued domain predicate written from the class docstring: ACCEPT => '
        'constructed, REJECT => ValueError, UNSPECIFIED (bool, numpy scalars, integer-valued floats for integer fields, '
        'upper bound inf of an integer range) => either, but no other exception type. Non-trivial = every grid point '
        '(each decides one acceptance question); distinct = distinct (field, value) or (field pair, values).')
ASSUMPTIONS = ['domains as documented in the TBRMMDesignParameters docstring (bounds, open/closed ends, integrality, '
               'ordered pairs: strict for share and budget, non-strict for geo ranges; None only for optional fields)']

inf = float('inf')
nan = float('nan')
A, R, U = 'ACCEPT', 'REJECT', 'UNSPEC'


def nxt(x):
    return math.nextafter(x, inf)


def prv(x):
    return math.nextafter(x, -inf)


def isnum(v):
    return type(v) in (int, float)


def scalar(lo, lo_incl, hi, hi_incl, integer, optional):
    def f(v):
        if v is None:
            return A if optional else R
        if isinstance(v, bool):
            return U
        if isinstance(v, np.generic):
            # numpy scalars: whether the TYPE is accepted is left open, but a value outside the documented domain (bounds,
            # integrality, NaN) must be rejected whatever its type
            try:
                fv = float(v)
            except Exception:
                return R
            if fv != fv or not (fv >= lo if lo_incl else fv > lo) or (hi is not None and not (fv <= hi if hi_incl else fv < hi)):
                return R
            if integer and (fv in (inf, -inf) or not fv.is_integer()):
                return R
            return U
        if not isnum(v):
            return R
        if v != v:
            return R
        okl = v >= lo if lo_incl else v > lo
        okh = True if hi is None else (v <= hi if hi_incl else v < hi)
        if not (okl and okh):
            return R
        if integer:
            if type(v) is int:
                return A
            if v in (inf, -inf):
                return R
            return U if float(v).is_integer() else R
        if v in (inf, -inf):
            return U     # an infinite tolerance / iroas is not a documented value; not judged
        return A
    return f


def rng(lo, lo_incl, hi, hi_incl, strict_order, integer):
    def f(v):
        if v is None:
            return A
        if not isinstance(v, tuple) or len(v) != 2:
            return R
        if any(isinstance(x, bool) or isinstance(x, np.generic) for x in v):
            return U
        if not all(isnum(x) for x in v):
            return R
        a, b = v
        if a != a or b != b:
            return R
        if not (a >= lo if lo_incl else a > lo):
            return R
        if hi is not None and not (b <= hi if hi_incl else b < hi):
            return R
        if b == inf or a == inf:
            return R
        if not (a < b if strict_order else a <= b):
            return R
        if integer:
            if all(type(x) is int for x in v):
                return A
            return U if all(float(x).is_integer() for x in v) else R
        return A
    return f


DOM = dict(
    n_test=scalar(1, True, None, None, True, False), iroas=scalar(0.0, True, None, None, False, False),
    volume_ratio_tolerance=scalar(0.0, False, None, None, False, True),
    geo_ratio_tolerance=scalar(0.0, False, None, None, False, True),
    treatment_share_range=rng(0.0, False, 1.0, False, True, False), budget_range=rng(0.0, True, None, None, True, False),
    treatment_geos_range=rng(1, True, None, None, False, True), control_geos_range=rng(1, True, None, None, False, True),
    n_geos_max=scalar(2, True, None, None, True, True), n_pretest_max=scalar(3, True, None, None, True, False),
    n_designs=scalar(1, True, None, None, True, False),
    rho_max=scalar(0.9, True, 1.0, False, False, False), sig_level=scalar(0.0, False, 1.0, False, False, False),
    power_level=scalar(0.0, False, 1.0, False, False, False),
    min_corr=scalar(0.8, True, 1.0, False, False, False), flevel=scalar(0.9, True, 1.0, False, False, False))
RANGE_FIELDS = ('treatment_share_range', 'budget_range', 'treatment_geos_range', 'control_geos_range')
DEFAULTS = dict(volume_ratio_tolerance=None, geo_ratio_tolerance=None, treatment_share_range=None, budget_range=None,
                treatment_geos_range=None, control_geos_range=None, n_geos_max=None, n_pretest_max=90, n_designs=1,
                sig_level=0.9, power_level=0.8, min_corr=0.8, rho_max=0.995, flevel=0.9)

# values are written as python expressions so that cases stay JSON-able and replays are exact
BASE = ['None', '0', '1', '2', '3', '-1', '0.0', '1.0', '0.5', '0.8', '0.9', '0.995', '2.5', 'inf', '-inf', 'nan',
        '10**400', '10**18', "'1'", '[1, 2]', '(1,)', 'True', 'False', 'np.int64(3)', 'np.float64(0.95)', '2.0', '3.0',
        '1e-300', '5e-324', '-0.0', '90', '4.000000000000001',
        # falsy / empty containers and other wrong types (a test written as `if not value` would wave them through)
        "''", '[]', '()', '{}', '1j', "'abc'", "b'1'", 'set()', '(None, None)', '(1, None)', '((1,), (2,))', 'range(1, 3)',
        '[0.1, 0.4]', 'np.array([1, 2])', 'np.nan', '(np.int64(1), np.int64(2))', '1e308 * 10',
        # real numbers of other types: non-integral / out-of-domain values must be rejected whatever the type
        'np.float32(2.5)', 'np.float16(30.5)', 'np.float64(7.5)', 'np.float32(-1.0)', 'np.int64(0)', 'np.float32(0.5)',
        'Fraction(7, 2)', 'Fraction(3, 1)', 'Decimal("2.5")', 'Decimal("3")']
for _b in (0.0, 0.8, 0.9, 1.0, 2.0, 3.0):
    BASE += ['nxt(%r)' % _b, 'prv(%r)' % _b]
_PA = ['0', '1', '2', '0.0', '0.1', '0.5', '1.0', 'prv(1.0)', 'nxt(0.0)', 'nan', 'inf', '-1', '1.5', '2.0', 'True', "'a'", 'None']
_PB = ['0', '1', '2', '3', '0.0', '0.3', '0.5', '1.0', 'prv(1.0)', 'inf', 'nan', '2.5', '3.0', '1e6', 'None']
PAIRS = ['(%s, %s)' % (a, b) for a in _PA for b in _PB] + ['(1, 2, 3)', '[1, 2]', '(1,)', '()', "'12'", '((1, 2),)', '{1, 2}']
REDUCED = {f: None for f in DOM}
REDUCED.update(
    n_test=['3', '1', '0'], iroas=['1.0', '0.0', '-1.0'], volume_ratio_tolerance=['0.5', 'nxt(0.0)', '0.0'],
    geo_ratio_tolerance=['None', '1e-9', '-1'], treatment_share_range=['(0.1, 0.4)', '(nxt(0.0), prv(1.0))', '(0.4, 0.1)'],
    budget_range=['(1.0, 2.0)', '(0.0, 1e-300)', '(2.0, 2.0)'], treatment_geos_range=['(1, 2)', '(1, 1)', '(2, 1)'],
    control_geos_range=['None', '(3, 3)', '(0, 3)'], n_geos_max=['None', '2', '1'], n_pretest_max=['90', '3', '2'],
    n_designs=['5', '1', '0'], rho_max=['0.995', '0.9', '1.0'], sig_level=['0.9', 'prv(1.0)', '1.0'],
    power_level=['0.8', 'nxt(0.0)', '0.0'], min_corr=['0.8', 'prv(1.0)', 'prv(0.8)'], flevel=['0.9', '0.99', 'prv(0.9)'])


def ev(expr):
    from decimal import Decimal
    from fractions import Fraction
    return eval(expr, {'inf': inf, 'nan': nan, 'np': np, 'nxt': nxt, 'prv': prv, 'Fraction': Fraction, 'Decimal': Decimal})


def cases(tier, seed):
    out = []
    for f in DOM:
        for e in BASE + PAIRS:
            out.append({'kind': 'single', 'fields': {f: e}})
    fs = list(DOM)
    for f, g in itertools.combinations(fs, 2):
        for a in REDUCED[f]:
            for b in REDUCED[g]:
                out.append({'kind': 'pair', 'fields': {f: a, g: b}})
    out.append({'kind': 'defaults'})
    for f in DOM:
        out.append({'kind': 'equality', 'field': f})
    out.append({'kind': 'missing-required', 'fields': {}})
    return out


def construct(fields):
    kw = dict(n_test=3, iroas=1.0)
    for f, e in fields.items():
        kw[f] = ev(e)
    try:
        return A, TBRMMDesignParameters(**kw)
    except ValueError:
        return R, None
    except Exception as e:
        return 'EXC:' + type(e).__name__, None


def run_case(case):
    kind = case['kind']
    viol = []
    if kind in ('single', 'pair'):
        got, _ = construct(case['fields'])
        exps = [DOM[f](ev(e)) for f, e in case['fields'].items()]
        exp = R if R in exps else (U if U in exps else A)
        if got.startswith('EXC'):
            viol.append({'key': 'C17:%s:%s' % ('+'.join(case['fields']), got), 'msg': '%s -> %s (documented domain says %s; only ValueError may be raised)' % (case['fields'], got, exp)})
        elif exp != U and got != exp:
            viol.append({'key': 'C17:%s:expected-%s' % ('+'.join(case['fields']), exp), 'msg': '%s -> %s, documented domain says %s' % (case['fields'], got, exp)})
        return {'viol': viol, 'nontrivial': True, 'outcome': [exp, got]}
    if kind == 'defaults':
        p = TBRMMDesignParameters(n_test=3, iroas=1.0)
        d = dataclasses.asdict(p)
        bad = {k: (d.get(k), v) for k, v in DEFAULTS.items() if d.get(k) != v}
        if bad:
            viol.append({'key': 'C17:defaults', 'msg': 'defaults differ from the documented ones: %s' % bad})
        return {'viol': viol, 'nontrivial': True, 'outcome': 'defaults'}
    if kind == 'missing-required':
        try:
            TBRMMDesignParameters()
            viol.append({'key': 'C17:required-fields-optional', 'msg': 'TBRMMDesignParameters() without n_test / iroas was accepted'})
        except (TypeError, ValueError):
            pass
        return {'viol': viol, 'nontrivial': True, 'outcome': 'missing'}
    f = case['field']
    alt = {'n_test': 4, 'iroas': 2.0, 'volume_ratio_tolerance': 0.5, 'geo_ratio_tolerance': 0.5, 'treatment_share_range': (0.1, 0.4),
           'budget_range': (1.0, 2.0), 'treatment_geos_range': (1, 2), 'control_geos_range': (1, 3), 'n_geos_max': 5,
           'n_pretest_max': 50, 'n_designs': 7, 'rho_max': 0.95, 'sig_level': 0.8, 'power_level': 0.7, 'min_corr': 0.85, 'flevel': 0.95}
    a = TBRMMDesignParameters(n_test=3, iroas=1.0)
    b = TBRMMDesignParameters(n_test=3, iroas=1.0)
    kw = dict(n_test=3, iroas=1.0)
    kw[f] = alt[f]
    c = TBRMMDesignParameters(**kw)
    c2 = TBRMMDesignParameters(**kw)
    if not (a == b) or (a != b) or not (c == c2):
        viol.append({'key': 'C17:equality-same-values-unequal', 'msg': 'objects with identical field values compare unequal (field %s)' % f})
    if a == c or not (a != c):
        viol.append({'key': 'C17:equality-ignores-' + f, 'msg': 'objects differing only in %s compare equal' % f})
    # field values that differ in the LAST BIT are different values: equality compares field values, not closeness
    near = {'iroas': (2.0, nxt(2.0)), 'volume_ratio_tolerance': (0.5, nxt(0.5)), 'geo_ratio_tolerance': (0.5, prv(0.5)),
            'treatment_share_range': ((0.1, 0.4), (0.1, nxt(0.4))), 'budget_range': ((1.0, 2.0), (nxt(1.0), 2.0)),
            'rho_max': (0.95, nxt(0.95)), 'sig_level': (0.8, prv(0.8)), 'power_level': (0.7, nxt(0.7)),
            'min_corr': (0.85, nxt(0.85)), 'flevel': (0.95, prv(0.95))}
    if f in near:
        u, v = near[f]
        pu = TBRMMDesignParameters(**dict(dict(n_test=3, iroas=1.0), **{f: u}))
        pv = TBRMMDesignParameters(**dict(dict(n_test=3, iroas=1.0), **{f: v}))
        if pu == pv or not (pu != pv):
            viol.append({'key': 'C17:equality-tolerant-' + f, 'msg': 'objects whose %s differ in the last bit (%r vs %r) compare equal' % (f, u, v)})
    return {'viol': viol, 'nontrivial': True, 'outcome': 'eq'}


def run(tier, seed, jobs):
    return engine.explore_cases(cases(tier, seed), 'mc.props.c17', jobs=jobs, chunksize=64)


def replay(case):
    return run_case(case)['viol']
