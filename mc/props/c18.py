"""C18 - pointwise and cumulative effect series are well formed for any experiment."""
import itertools
import math

import numpy as np
from scipy import stats

from mc import engine, frames
from mc.ref import stats as rstats
from mc.props import c07

from matched_markets.methodology.tbr_iroas import TBRiROAS

ID = 'C18'
LEVEL = 'exploration'
RULE = ('Engine A: lattice of experiment frames with cooldown: 4 shapes x n_pre in {3 (one residual degree of freedom),4,6,10} x n_test in {1,2,4} x cooldown in '
        '{1,2} x control swing in the test period in {0, 20, 80, 240} (so that the reference cumulative scale decreases) x '
        'unassigned-period dates in {none, lead, gap, trail} x cost scenario in {fixed, variable, treatment-pre-cost-only (control never spends: slope-free cost regression), low-spend (the fitted line predicts negative spend on some dates)} x metric in {response, cost} x '
        'level in {0.6,0.8,0.9,0.95} x tails x object state in {fresh, already fitted to ANOTHER experiment and asked for all reports} x unit in {1, 2^-20 (the same experiment expressed in millions; all tolerances scale with the unit)} x response / cost held in integer columns (where all values are integral). Oracle: the call succeeds; lower <= estimate <= upper on every date for all three '
        'series; counterfactual + pointwise = observed treatment series; pre-period pointwise = reference OLS residuals; last '
        'cumulative row = incremental effect and the reference quantiles; series cover exactly the analysed dates. Known '
        'finding K1 is keyed by the REFERENCE condition "cumulative scale of the closed-form posterior is not non-decreasing" '
        '(strictly: a plateau counts; equivalent to the failure, see DESIGN.md). Non-trivial = every frame x metric; distinct = distinct case.')
ASSUMPTIONS = ['frames whose pre-period fit has exactly zero residual variance (posterior scale 0) are dropped and counted',
               'scope S1: levels > 0.5 only (with tails=1 and level <= 0.5 the documented lower bound lies above the median)',
               'value lattice as in C06/C07; comparisons at 1e-8 absolute / 1e-9 relative']


def cases(tier, seed):
    out = []
    thorough = tier == 'thorough'
    for sh, npre, ntest, ncool in itertools.product(frames.SHAPES[:4], (3, 4, 6, 10), (1, 2, 4), (1, 2)):
        for swing in (0, 20, 80, 240):
            for extra in (None, 'lead', 'gap', 'trail'):
                for scen in ('fixed', 'variable', 'treatment-pre-cost-only', 'low-spend'):
                    combos = [(m, l, t) for m in ('tbr_response', 'tbr_cost') for l in (0.6, 0.8, 0.9, 0.95) for t in (1, 2)]
                    if not thorough:
                        k = (npre + ntest + ncool + swing // 20 + (0 if extra is None else len(extra))) % 4
                        sel = [c for i, c in enumerate(combos) if i % 4 == k]
                        combos = [sel[0], sel[-1]]      # one response and one cost setting
                        if extra is not None and swing not in (0, 80):
                            continue
                    for metric, level, tails in combos:
                        out.append({'spec': {'shape': sh, 'npre': npre, 'ntest': ntest, 'ncool': ncool, 'seed': seed, 'swing': swing, 'lift': 8},
                                    'scen': scen, 'extra': extra, 'metric': metric, 'level': level, 'tails': tails})
                        if thorough or extra is None:
                            out.append(dict(out[-1], state='refit'))
                        if (thorough or extra is None) and swing == 0:
                            out.append(dict(out[-2] if (thorough or extra is None) else out[-1], int_columns=True))
                        if (thorough or extra is None) and swing == 0:
                            out.append(dict(out[-2] if (thorough or extra is None) else out[-1], unit=2.0 ** -20))
    return out


def run_case(case):
    spec = case['spec']
    npre, ntest, ncool = spec['npre'], spec['ntest'], spec['ncool']
    x, y, periods = frames.series(spec)
    cc, ct = c07.cost_series(case['scen'], x, npre, ntest, ncool, spec.get('seed', 0))
    u = float(case.get('unit', 1.0))      # the same experiment expressed in another UNIT (e.g. millions): exact power of two
    x, y, cc, ct = u * x, u * y, u * cc, u * ct
    extra = [(case['extra'], -1)] if case['extra'] else None
    df = frames.build(x, y, periods, cost_c=cc, cost_t=ct, extra_dates=extra)
    if case.get('int_columns'):
        # the same numbers held in INTEGER columns (counts, whole currency units); only where every value is integral
        if all(float(v).is_integer() for col in ('response', 'cost') for v in df[col]):
            df = df.astype({'response': 'int64', 'cost': 'int64'})
        else:
            return {'viol': [], 'nontrivial': False, 'outcome': 'not-integral', 'counts': {'int_presentation_not_applicable': 1}}
    viol = []

    def add(key, msg):
        viol.append({'key': 'C18:' + key, 'msg': msg})
    m = TBRiROAS(use_cooldown=True)
    if case.get('state') == 'refit':
        c07.used_before(m, dict(case, spec=dict(spec, ncool=ncool)))
    m.fit(df)
    metric = case['metric']
    xs, ys = (x, y) if metric == 'tbr_response' else (cc, ct)
    fixed_cost = metric == 'tbr_cost' and case['scen'] == 'fixed'
    tag = '%s %s level=%s tails=%d extra=%s swing=%s' % (metric, case['scen'], case['level'], case['tails'], case['extra'], spec['swing'])
    post = None
    mono = True
    # control series constant in the pre-period (e.g. control never spends): the regression has no slope; the
    # counterfactual is the pre-period mean of the treatment series (closed form below), quantile clauses are skipped
    degenerate = (not fixed_cost) and float(np.ptp(np.asarray(xs[:npre], float))) == 0.0
    ypre_ = np.asarray(ys[:npre], float)
    if not fixed_cost:
        # zero residual variance in the pre-period (posterior scale exactly 0, quantiles undefined) is outside the statement's
        # "fitted experiment": such lattice points are dropped and counted, like in C05
        rv = float(np.var(ypre_)) if degenerate else rstats.ols(xs[:npre], ys[:npre])['s2']
        if rv <= 1e-12:
            return {'viol': [], 'nontrivial': False, 'outcome': 'zero-residual-variance', 'counts': {'degenerate_frames_dropped': 1}}
    if not fixed_cost and not degenerate:
        post = rstats.tbr_posterior(xs[:npre], ys[:npre], xs[npre:], ys[npre:])
        sc_ = np.concatenate([[0.0], post['scale']])
        # K1 condition: the cumulative scale must increase STRICTLY for the differenced bounds to enclose the estimate strictly
        # (the series container rejects 'bound == estimate' as well); a plateau s_t == s_{t-1} is the boundary of the same defect
        mono = bool(np.all(np.diff(sc_) > 1e-12 * sc_[1:].max()))
    try:
        ts = m.estimate_pointwise_and_cumulative_effect(metric, level=case['level'], tails=case['tails'])
    except Exception as e:
        msg = str(e)
        if isinstance(e, ValueError) and ('bound is not' in msg) and not mono:
            key = 'K1-bounds-by-differencing-when-cumulative-scale-decreases'
        elif case['extra']:
            key = 'raises-%s:unassigned-period-dates' % type(e).__name__
        else:
            key = 'raises-%s' % type(e).__name__
        return {'viol': [{'key': 'C18:' + key, 'msg': '%s: %s: %s' % (tag, type(e).__name__, msg[:150])}], 'nontrivial': True,
                'outcome': ['raised', mono]}
    n = npre + ntest + ncool
    cf, pw, cu = ts.counterfactual, ts.pointwise_difference, ts.cumulative_effect
    if len(cf) != n or len(pw) != n or len(cu) != ntest + ncool:
        add('series-length', '%s: lengths %d/%d/%d, expected %d/%d/%d' % (tag, len(cf), len(pw), len(cu), n, n, ntest + ncool))
        return {'viol': viol, 'nontrivial': True, 'outcome': 'length'}
    for name, s in (('counterfactual', cf), ('pointwise', pw), ('cumulative', cu)):
        lo, es, up = (np.asarray(s[c], float) for c in ('lower', 'estimate', 'upper'))
        if not (np.all(lo <= es + 1e-9 * (1 + np.abs(es))) and np.all(es <= up + 1e-9 * (1 + np.abs(es)))):
            add('ordering-' + name, '%s: lower <= estimate <= upper fails on some date' % tag)
    obs = np.asarray(ys, float)
    if not np.allclose(np.asarray(cf['estimate'], float) + np.asarray(pw['estimate'], float), obs, rtol=1e-9, atol=1e-7 * u):
        add('counterfactual-plus-pointwise', '%s: counterfactual + pointwise != observed treatment series' % tag)
    if fixed_cost:
        if not np.allclose(np.asarray(pw['estimate'], float), obs, atol=1e-9 * u):
            add('fixed-cost-pointwise', '%s: pointwise cost effect != observed cost' % tag)
        if not math.isclose(float(np.asarray(cu['estimate'], float)[-1]), float(obs[npre:].sum()), rel_tol=1e-9, abs_tol=1e-9 * u):
            add('fixed-cost-cumulative', '%s: last cumulative %r != total test cost %r' % (tag, float(np.asarray(cu['estimate'])[-1]), float(obs[npre:].sum())))
    elif degenerate:
        ypre = np.asarray(ys[:npre], float)
        if not np.allclose(np.asarray(pw['estimate'], float)[:npre], ypre - ypre.mean(), rtol=1e-8, atol=1e-6 * u):
            add('pre-period-residuals', '%s: pre-period pointwise differences are not the residuals (control constant: y - mean(y))' % tag)
        cum_ref = np.cumsum(np.asarray(ys[npre:], float) - ypre.mean())
        if not np.allclose(np.asarray(cu['estimate'], float), cum_ref, rtol=1e-8, atol=1e-6 * u):
            add('cumulative-estimates', '%s: cumulative estimates differ from cumsum(y_t - mean(y_pre)) with a constant control series' % tag)
    else:
        res = post['fit']['res']
        if not np.allclose(np.asarray(pw['estimate'], float)[:npre], res, rtol=1e-8, atol=1e-6 * u):
            add('pre-period-residuals', '%s: pre-period pointwise differences are not the OLS residuals' % tag)
        q = stats.t.ppf((1 - case['level']) / case['tails'], post['df'])
        L, S = post['loc'][-1], post['scale'][-1]
        last = cu.iloc[-1]
        if not (math.isclose(last['estimate'], L, rel_tol=1e-8, abs_tol=1e-6 * u) and math.isclose(last['lower'], L + q * S, rel_tol=1e-8, abs_tol=1e-6 * u)
                and math.isclose(last['upper'], L - q * S, rel_tol=1e-8, abs_tol=1e-6 * u)):
            add('cumulative-last-row', '%s: last cumulative row (%r, %r, %r), closed form (%r, %r, %r)' % (
                tag, last['lower'], last['estimate'], last['upper'], L + q * S, L, L - q * S))
        if not np.allclose(np.asarray(cu['estimate'], float), post['loc'], rtol=1e-8, atol=1e-6 * u):
            add('cumulative-estimates', '%s: cumulative estimates differ from the closed form on some date' % tag)
    return {'viol': viol, 'nontrivial': True, 'outcome': ['ok', mono, fixed_cost, degenerate]}


def run(tier, seed, jobs):
    return engine.explore_cases(cases(tier, seed), 'mc.props.c18', jobs=jobs, chunksize=4)


def replay(case):
    return run_case(case)['viol']


def explain(case):
    spec = case['spec']
    x, y, periods = frames.series(spec)
    cc, ct = c07.cost_series(case['scen'], x, spec['npre'], spec['ntest'], spec['ncool'], spec.get('seed', 0))
    return {'control_response': x.tolist(), 'treatment_response': y.tolist(), 'control_cost': cc.tolist(), 'treatment_cost': ct.tolist(),
            'periods': periods, 'unassigned_period_dates': case['extra'], 'call': 'TBRiROAS(use_cooldown=True).fit(df); '
            'estimate_pointwise_and_cumulative_effect(%r, level=%r, tails=%r)' % (case['metric'], case['level'], case['tails'])}
