"""C19 - post-analysis data screening removes exactly what it reports."""
import itertools

import numpy as np
import pandas as pd

from mc import engine, frames

from matched_markets.methodology import tbrdiagnostics

ID = 'C19'
LEVEL = 'exploration'
RULE = ('Engine A: frames with G in {2,3,4,5,6} geos (>= 4 needed for the noisy-geo screen) x 5 | 8 trends x planted noisy geo in '
        '{none, each position} x planted outlier date in {none, three positions} x default / custom column names and group labels x extra geos outside the experiment in {none, unassigned label, another label, both} x twin geos (exact ties within a group on every date); '
        'each frame is fitted in 3 row orders, once with repeated (non-unique) row index labels, once on an object that has already screened ANOTHER data set, and with the date column as ISO strings / as datetime.date objects. Oracle (consistency, not prediction): get_data() == input rows minus every row of '
        'the reported noisy geos and of the reported outlier dates (as multisets of rows); get_analysis_data() == per-date control '
        '/ treatment totals of that; the caller\'s frame is unchanged; reported results identical for all row orders. '
        'Non-trivial = something was reported and removed; distinct = distinct case.')
ASSUMPTIONS = ['what counts as noisy / outlier is the library\'s decision (not re-derived); the oracle checks that removal matches the report',
               'integer-valued responses, 14 pre-test + 4 test dates']


def frame(G, npre, ntest, seed, noisy, outlier, custom, others=None, twins=False):
    n = npre + ntest
    trend = frames.shape('walk', n, seed) * 2 + np.array(frames.lcg_noise(seed + 5, n, 0, 2), float)
    dates = pd.date_range('2020-01-01', periods=n)
    rows = []
    for g in range(G):
        nz = frames.lcg_noise(100 * seed + g + 3, n, -2, 2)
        junk = frames.lcg_noise(200 * seed + g + 7, n, 0, 60)
        for i, d in enumerate(dates):
            v = (g + 1) * trend[i] + nz[i]
            if noisy is not None and g == noisy:
                v = float(junk[i])
            if outlier is not None and i == outlier and g % 2 == 1:
                v += 40 * (g + 1)
            rows.append(dict(date=d, geo=g, group=1 + (g % 2), period=0 if i < npre else 1, response=float(v)))
    if twins:
        # one market reported as two equal halves: geos 50/52 copy geo 0 (same group, same values on every date) and geos
        # 51/53 copy geo 1 - exact ties across geos of one group on every date; small integer counts tie by themselves
        for src, new in ((0, 50), (1, 51), (0, 52), (1, 53)):
            if src < G:
                for r in [r for r in rows if r['geo'] == src]:
                    rows.append(dict(r, geo=new))
    # geos that take no part in the experiment: labelled 'unassigned' (-1) or with some other label (0 = e.g. excluded market)
    for j, lab in enumerate({'unassigned': [-1], 'other-label': [0], 'both': [-1, 0, 0]}.get(others, [])):
        big = frames.lcg_noise(300 * seed + j + 11, n, 50, 400)
        for i, d in enumerate(dates):
            rows.append(dict(date=d, geo=100 + j, group=lab, period=0 if i < npre else 1, response=float(big[i])))
    df = pd.DataFrame(rows)
    kw = {}
    if custom:
        df = df.rename(columns={'geo': 'Geo', 'group': 'grp', 'period': 'per', 'response': 'sales', 'date': 'day'})
        df['grp'] = df['grp'].map({1: 7, 2: 5, -1: -1, 0: 0})
        kw = dict(key_geo='Geo', key_group='grp', key_period='per', key_response='sales', key_date='day', group_control=7,
                  group_treatment=5)
    return df, kw


def canon(df):
    return sorted(map(tuple, df.astype(object).values.tolist()), key=repr)


def cases(tier, seed):
    out = []
    seeds = range(8) if tier == 'thorough' else range(5)
    for G in (2, 3, 4, 5, 6):
        for s in seeds:
            for noisy in [None] + list(range(G)):
                for outlier in (None, 3, 9, 15):
                    for custom in (False, True):
                        if tier != 'thorough' and custom and (noisy is not None and outlier is not None):
                            continue
                        out.append({'G': G, 'seed': s + 10 * seed, 'noisy': noisy, 'outlier': outlier, 'custom': custom})
                        if noisy is None and not custom:
                            out.append({'G': G, 'seed': s + 10 * seed, 'noisy': noisy, 'outlier': outlier, 'custom': custom, 'twins': True})
                        for others in ('unassigned', 'other-label', 'both'):
                            if tier == 'thorough' or (not custom and (noisy in (None, 1)) == (others != 'both')):
                                out.append({'G': G, 'seed': s + 10 * seed, 'noisy': noisy, 'outlier': outlier, 'custom': custom, 'others': others})
    return out


def run_case(case):
    df, kw = frame(case['G'], 14, 4, case['seed'], case['noisy'], case['outlier'], case['custom'], case.get('others'), case.get('twins', False))
    names = dict(geo=kw.get('key_geo', 'geo'), date=kw.get('key_date', 'date'), group=kw.get('key_group', 'group'),
                 resp=kw.get('key_response', 'response'))
    cid, tid = kw.get('group_control', 1), kw.get('group_treatment', 2)
    obs = []
    viol = []

    def add(key, msg):
        viol.append({'key': 'C19:' + key, 'msg': msg})
    for order in ('sorted', 'reversed', 'mixed', 'repeated-index-labels', 'refit', 'dates-as-strings', 'dates-as-date-objects'):
        if order in ('sorted', 'refit', 'dates-as-strings', 'dates-as-date-objects'):
            d0 = df
        elif order == 'reversed':
            d0 = df.iloc[::-1]
        else:
            d0 = pd.concat([df.iloc[1::2], df.iloc[0::2]])
        d0 = d0.reset_index(drop=True)
        if order == 'repeated-index-labels':
            # like pd.concat of per-group pieces without ignore_index, or a frame indexed by something non-unique:
            # the row labels repeat across geos (only the COLUMNS are documented input)
            d0.index = [i % 7 for i in range(len(d0))]
        if order == 'dates-as-strings':         # e.g. read_csv without parse_dates: ISO strings
            d0[names['date']] = d0[names['date']].dt.strftime('%Y-%m-%d')
        elif order == 'dates-as-date-objects':  # datetime.date objects in an object column
            d0[names['date']] = pd.Series([x.date() for x in d0[names['date']]], index=d0.index, dtype=object)
        before = d0.copy(deep=True)
        t = tbrdiagnostics.TBRDiagnostics()
        if order == 'refit':
            # NON-INITIAL state: the object has screened ANOTHER data set (other geos, planted noisy geo and outlier) before
            d1, kw1 = frame(5, 14, 4, case['seed'] + 1, 2, 5, False)
            try:
                t.fit(d1, target='response', **kw1)
                t.get_data(), t.get_analysis_data(), t.get_test_results()
            except ValueError:
                pass
        try:
            t.fit(d0, target=names['resp'], **kw)
        except Exception as e:
            sizes = d0[d0[names['group']].isin([cid, tid])].groupby(names['group'])[names['geo']].nunique()
            if isinstance(e, ValueError) and 'must be present' in str(e) and int(sizes.min()) == 1:
                # a group of ONE geo was emptied by the noisy-geo screen: the documented rejection (no both-groups frame left)
                obs.append(('rejected-group-emptied',))
                continue
            add('fit-raises-' + type(e).__name__, 'fit() raised %s: %s (G=%d, order=%s)' % (type(e).__name__, str(e)[:120], case['G'], order))
            break
        if not d0.equals(before):
            add('input-frame-modified', 'the caller\'s frame was modified by fit() (order=%s)' % order)
        r = t.get_test_results()
        noisy_g = list(r['noisy_geos'] or [])
        outl = list(r['outlier_dates'] or [])
        # dates are matched by calendar day, whatever the dtype of the column / of the reported values
        exp = d0[~d0[names['geo']].isin(noisy_g) & ~pd.to_datetime(d0[names['date']]).isin(pd.to_datetime(pd.Series(outl, dtype=object)))]
        got = t.get_data()
        if canon(got) != canon(exp):
            add('screened-data-mismatch', 'get_data() has %d rows, input minus reported noisy geos %s and outlier dates %s has %d rows (or rows differ)' % (
                len(got), noisy_g, [str(o)[:10] for o in outl], len(exp)))
        ad = t.get_analysis_data()
        ex_x = exp[exp[names['group']] == cid].groupby(names['date'])[names['resp']].sum()
        ex_y = exp[exp[names['group']] == tid].groupby(names['date'])[names['resp']].sum()
        try:
            ok = (list(ad.index) == list(ex_x.index) and np.allclose(ad['x'].values, ex_x.values, rtol=1e-12)
                  and np.allclose(ad['y'].values, ex_y.values, rtol=1e-12))
        except Exception:
            ok = False
        if not ok:
            add('analysis-data-mismatch', 'get_analysis_data() differs from the per-date control/treatment totals of the screened data (order=%s)' % order)
        obs.append((tuple(sorted(map(str, noisy_g))), tuple(sorted(str(o)[:10] for o in outl)), bool(r['corr_test'])))
    if len(set(obs)) > 1:
        add('row-order-dependence', 'reported results depend on the input row order: %s' % (sorted(set(obs)),))
    seen = set()
    viol = [v for v in viol if not (v['key'] in seen or seen.add(v['key']))]
    if obs and obs[0] == ('rejected-group-emptied',):
        return {'viol': viol, 'nontrivial': False, 'outcome': 'rejected-group-emptied', 'counts': {'fits': len(obs), 'rejected_single_geo_group_screened_out': 1}}
    removed = bool(obs and (obs[0][0] or obs[0][1]))
    return {'viol': viol, 'nontrivial': removed, 'outcome': [bool(obs and obs[0][0]), bool(obs and obs[0][1]), bool(obs and obs[0][2])],
            'counts': {'fits': len(obs), 'frames_with_noisy_geo_reported': int(bool(obs and obs[0][0])),
                       'frames_with_outlier_dates_reported': int(bool(obs and obs[0][1]))}}


def run(tier, seed, jobs):
    return engine.explore_cases(cases(tier, seed), 'mc.props.c19', jobs=jobs, chunksize=4)


def replay(case):
    return run_case(case)['viol']


def explain(case):
    df, kw = frame(case['G'], 14, 4, case['seed'], case['noisy'], case['outlier'], case['custom'], case.get('others'), case.get('twins', False))
    return {'frame_rows': df.astype(str).values.tolist()[:60], 'columns': list(df.columns), 'fit_kwargs': kw}
