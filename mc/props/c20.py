"""C20 - expansion of excluded days is exact."""
import itertools

from mc import engine
from mc.ref import days as rdays

from matched_markets.methodology import utils

ID = 'C20'
LEVEL = 'exploration'
DAYS = ['2019/12/30', '2019/12/31', '2020/01/01', '2020/02/28', '2020/02/29', '2020/03/01', '2021/02/28', '2021/03/01']
RULE = ('Engine A: anchor days around month, year and leap boundaries (8 days) -> 8 single-day entries + 36 closed '
        'ranges = 44 entries; EVERY list of <= 2 | <= 3 entries (1 980 | 87 164 lists: all orders, duplications and '
        'overlaps are in the list space; quick adds all 3 375 triples over a 15-entry sub-alphabet of 5 consecutive days; both tiers add all 1 296 4-entry lists over 3 consecutive days and all 1 024 5-entry lists over a 4-entry alphabet; HISTORIES of two calls: every ordered pair of lists of <= 2 entries over 3 consecutive days (1 764 pairs), the second call judged), the empty list; malformed entries (impossible dates, non-dates, empty string, '
        'three-part ranges, all 28 reversed ranges, wrong separators) each embedded at every position of valid lists of '
        'length <= 2. Oracle on expand_time_windows(find_days_to_exclude(list)): no duplicates, every element a '
        'midnight timestamp, day set == reference union of closed ranges (datetime.date ordinals); malformed => '
        'ValueError from either stage. Non-trivial = list with >= 2 entries or a malformed entry; distinct = distinct list.')
ASSUMPTIONS = ['documented format: YYYY/MM/DD and "YYYY/MM/DD - YYYY/MM/DD"; entries that pandas can read but that are not '
               'in this format (e.g. other separators inside a day) are not part of the alphabet except as listed malformed ones']

SUBDAYS = ['2020/02/27', '2020/02/28', '2020/02/29', '2020/03/01', '2020/03/02']
MALFORMED = ['2020/02/30', '2021/02/29', '2020/13/01', '2020/00/10', 'yesterday', '', ' ', '2020/01/01 - 2020/01/05 - 2020/01/09',
             '2020/01/05 - 2020/02/30', 'abc - 2020/01/01', '2020/01/01 - ', ' - 2020/01/01', '-',
             # a valid day EMBEDDED in stray characters (typos): still malformed
             '2020/10/100', '2020/10/10x', 'x2020/10/10', '12020/10/10', '2020/10/1O', '2020/10/10 to 2020/10/12',
             '2020/10/10,2020/10/12', '2020/10/05 - 2020/10/077', '2020/10/05x - 2020/10/07', '2020/10/10 2020/10/12',
             '(2020/10/10)', '2020/10/10 - 2020/10/12 -']
# (strings the date parser of pandas itself reads as a day - '2020/10/10.', '2020//10/10', '2020/10/10/' - are not in the
# alphabet: whether such near-format spellings are malformed is not for this check to decide, see ASSUMPTIONS)


def entries():
    out = [(d, d) for d in DAYS]
    out += [('%s - %s' % (a, b), None) for a, b in itertools.combinations_with_replacement(DAYS, 2)]
    return [e for e, _ in out]


def cases(tier, seed):
    E = entries()
    out = [{'list': []}]
    for k in ((1, 2, 3) if tier == 'thorough' else (1, 2)):
        for combo in itertools.product(E, repeat=k):
            out.append({'list': list(combo)})
    if tier != 'thorough':
        # all triples over a 15-entry sub-alphabet (5 consecutive days across the leap day: 5 single days + 10 ranges), so
        # that bridging / nesting / chaining patterns of three entries occur in every order
        sub = [d for d in SUBDAYS] + ['%s - %s' % (a, b) for a, b in itertools.combinations(SUBDAYS, 2)]
        for combo in itertools.product(sub, repeat=3):
            out.append({'list': list(combo)})
    # deeper on tiny alphabets: all 4-entry lists over 3 consecutive days (3 single days + 3 ranges), all 5-entry lists over
    # {a day inside a range, that range, a range continuing it, a disjoint day}
    d3 = SUBDAYS[1:4]
    sub4 = list(d3) + ['%s - %s' % (a, b) for a, b in itertools.combinations(d3, 2)]
    for combo in itertools.product(sub4, repeat=4):
        out.append({'list': list(combo)})
    sub5 = ['2020/02/28', '2020/02/27 - 2020/02/29', '2020/03/01 - 2020/03/02', '2021/03/01']
    for combo in itertools.product(sub5, repeat=5):
        out.append({'list': list(combo)})
    # NON-INITIAL state of the module: the pipeline has already expanded another list in this process (all ordered pairs of
    # lists of <= 2 entries over the 6-entry alphabet of 3 consecutive days); the answer must not depend on that
    small = [[a] for a in sub4] + [[a, b] for a in sub4 for b in sub4]
    for prior in small:
        for lst in small:
            out.append({'prior': prior, 'list': lst})
    bad = list(MALFORMED) + ['%s - %s' % (b, a) for a, b in itertools.combinations(DAYS, 2)]
    for m in bad:
        out.append({'list': [m]})
        for v in (E[0], E[9], E[20]):
            out.append({'list': [m, v]})
            out.append({'list': [v, m]})
            out.append({'list': [v, m, E[3]]})
    return out


def run_case(case):
    lst = case['list']
    exp = rdays.expand(lst)
    viol = []
    if case.get('prior') is not None:
        try:
            utils.expand_time_windows(utils.find_days_to_exclude(case['prior']))
        except ValueError:
            pass
    try:
        arg = list(lst)
        windows = utils.find_days_to_exclude(arg)
        wins_before = [(w.first_day, w.last_day) for w in windows]
        got = utils.expand_time_windows(windows)
        again = utils.expand_time_windows(windows)       # the same windows expanded a second time
        if arg != lst or [(w.first_day, w.last_day) for w in windows] != wins_before or sorted(again) != sorted(got):
            viol.append({'key': 'C20:arguments-modified-or-not-repeatable', 'msg': 'list %r: the pipeline modified its arguments or a second expansion of the same windows differs' % (lst,)})
    except ValueError:
        got = 'ValueError'
    except Exception as e:
        got = 'EXC:' + type(e).__name__
    if exp is None:
        if got != 'ValueError':
            viol.append({'key': 'C20:malformed-not-rejected', 'msg': 'list %r contains a malformed entry or reversed range but '
                         'the pipeline answered %s' % (lst, got if isinstance(got, str) else 'a list of %d days' % len(got))})
        return {'viol': viol, 'nontrivial': True, 'outcome': 'malformed'}
    if isinstance(got, str):
        viol.append({'key': 'C20:valid-list-rejected:' + got, 'msg': 'valid list %r raised %s' % (lst, got)})
        return {'viol': viol, 'nontrivial': True, 'outcome': got}
    g = [t.to_pydatetime() for t in got]
    if len(got) != len(set(got)):
        viol.append({'key': 'C20:duplicate-days', 'msg': 'list %r: %d days returned, %d distinct' % (lst, len(got), len(set(got)))})
    if any(t.hour or t.minute or t.second or t.microsecond for t in g):
        viol.append({'key': 'C20:not-midnight', 'msg': 'list %r: some element is not a midnight timestamp' % (lst,)})
    gs = {t.date().toordinal() for t in g}
    if gs != exp:
        import datetime
        miss = sorted(exp - gs)[:3]
        extra = sorted(gs - exp)[:3]
        viol.append({'key': 'C20:day-set-differs', 'msg': 'list %r: missing %s, extra %s' % (
            lst, [datetime.date.fromordinal(d).isoformat() for d in miss], [datetime.date.fromordinal(d).isoformat() for d in extra])
                     + (' (after the pipeline had expanded %r in the same process)' % (case['prior'],) if case.get('prior') is not None else '')})
    return {'viol': viol, 'nontrivial': len(lst) >= 2, 'outcome': min(len(exp), 30)}


def run(tier, seed, jobs):
    return engine.explore_cases(cases(tier, seed), 'mc.props.c20', jobs=jobs, chunksize=64)


def replay(case):
    return run_case(case)['viol']
