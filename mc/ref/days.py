"""Reference calendar model on datetime.date ordinals: parse 'YYYY/MM/DD' and 'a - b', union of closed ranges."""
import datetime
import re

_DAY = re.compile(r'^\s*(\d{4})/(\d{2})/(\d{2})\s*$')


def parse_day(s):
    """-> ordinal, or None if the string is not a valid calendar day in the documented format."""
    m = _DAY.match(s)
    if not m:
        return None
    try:
        return datetime.date(int(m.group(1)), int(m.group(2)), int(m.group(3))).toordinal()
    except ValueError:
        return None


def parse_entry(s):
    """-> (first, last) ordinals, or None if malformed (not a day, not 'day - day', or reversed)."""
    parts = s.split('-')
    if len(parts) == 1:
        d = parse_day(parts[0])
        return None if d is None else (d, d)
    if len(parts) == 2:
        a, b = parse_day(parts[0]), parse_day(parts[1])
        if a is None or b is None or a > b:
            return None
        return (a, b)
    return None


def expand(entries):
    """Union of the closed ranges; None if any entry is malformed."""
    out = set()
    for e in entries:
        r = parse_entry(e)
        if r is None:
            return None
        out.update(range(r[0], r[1] + 1))
    return out
