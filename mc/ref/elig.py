"""Reference eligibility model: a row is a (control, treatment, exclude) triple of 0/1."""
import itertools
from fractions import Fraction

ROWS7 = [(1, 1, 1), (1, 0, 0), (0, 1, 0), (0, 0, 1), (1, 1, 0), (1, 0, 1), (0, 1, 1)]
ROWS8 = ROWS7 + [(0, 0, 0)]
CLASS = {(1, 0, 0): 'c_fixed', (0, 1, 0): 't_fixed', (0, 0, 1): 'x_fixed', (1, 1, 0): 'ct', (1, 0, 1): 'cx',
         (1, 1, 1): 'ctx', (0, 1, 1): 'tx'}
CLASSES = ['c_fixed', 't_fixed', 'x_fixed', 'ct', 'cx', 'ctx', 'tx']


def partition(rowd, geos, indices=False):
    """Class partition of an ordered geo list.  rowd: {geo: row}.  -> {class or 'all','c','t','x': set}."""
    key = (lambda i, g: i) if indices else (lambda i, g: g)
    out = {c: set() for c in CLASSES}
    out.update({'all': set(), 'c': set(), 't': set(), 'x': set()})
    for i, g in enumerate(geos):
        r = tuple(rowd[g])
        k = key(i, g)
        out[CLASS[r]].add(k)
        out['all'].add(k)
        if r[0]:
            out['c'].add(k)
        if r[1]:
            out['t'].add(k)
        if r[2]:
            out['x'].add(k)
    return out


def legal_designs(rowd, admitted):
    """All (T, C) frozenset pairs over the admitted geos that respect each geo's row, both groups non-empty."""
    adm = sorted(admitted)
    opts = []
    for g in adm:
        c, t, x = rowd[g]
        o = []
        if c:
            o.append('c')
        if t:
            o.append('t')
        if x:
            o.append('x')
        opts.append(o)
    for a in itertools.product(*opts):
        T = frozenset(g for g, v in zip(adm, a) if v == 't')
        C = frozenset(g for g, v in zip(adm, a) if v == 'c')
        if T and C:
            yield T, C


def sizes_ok(nT, nC, kw):
    """Exact (rational) test of the integer-valued constraints: size ranges and geo-count ratio, inclusive."""
    tr = kw.get('treatment_geos_range')
    cr = kw.get('control_geos_range')
    gt = kw.get('geo_ratio_tolerance')
    if tr is not None and not (tr[0] <= nT <= tr[1]):
        return False
    if cr is not None and not (cr[0] <= nC <= cr[1]):
        return False
    if gt is not None:
        r = Fraction(nC, nT)
        hi = 1 + Fraction(gt)
        lo = 1 / hi
        if not (lo <= r <= hi):
            return False
    return True
