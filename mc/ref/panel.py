"""Reference panel model: long rows -> {geo id (str): [value per sorted date]}, zero fill, means, shares, windows."""


def table(rows):
    """rows: iterable of (date, geo, value).  Returns (sorted dates, {str(geo): [values]})."""
    dates = sorted({r[0] for r in rows})
    pos = {d: i for i, d in enumerate(dates)}
    acc = {}
    for d, g, v in rows:           # several rows for one (geo, date) are averaged (pivot_table's documented default)
        a = acc.setdefault((str(g), pos[d]), [0.0, 0])
        a[0] += float(v)
        a[1] += 1
    tab = {}
    for (g, i), (sm, n) in acc.items():
        tab.setdefault(g, [0.0] * len(dates))[i] = sm / n
    return dates, tab


def means(tab):
    return {g: sum(v) / len(v) for g, v in tab.items()}


def shares(tab):
    m = means(tab)
    tot = sum(m.values())
    return {g: m[g] / tot for g in m}


def window(tab, n):
    """Most recent n dates."""
    return {g: v[-n:] for g, v in tab.items()}


def agg(series, geos):
    """Sum of the series of the given geos (exact for integer panels)."""
    geos = sorted(geos)
    n = len(next(iter(series.values())))
    out = [0.0] * n
    for g in geos:
        s = series[g]
        for i in range(n):
            out[i] += s[i]
    return out
