"""Reference statistics: Pearson r, required impact (closed form), OLS and the TBR posterior (Kerman 2017, eq. 5)."""
import math

import numpy as np
from scipy import stats

_MULT = {}


def impact_mult(n_test, n, flevel, sig, power):
    key = (n_test, n, flevel, sig, power)
    if key not in _MULT:
        phi = stats.f.ppf(flevel, 1, n - 1)
        _MULT[key] = ((stats.t.ppf(sig, n - 2) + stats.t.ppf(power, n - 2)) * n_test *
                      math.sqrt(phi * (n + 1) / (n * n_test * (n - 1)) + 1.0 / n + 1.0 / n_test))
    return _MULT[key]


def est_impact(y, rho, n_test, flevel, sig, power):
    y = np.asarray(y, float)
    n = len(y)
    sd = math.sqrt(((y - y.mean()) ** 2).sum() / (n - 2))
    return impact_mult(n_test, n, flevel, sig, power) * sd * math.sqrt(1 - rho ** 2)


def corr(x, y):
    x = np.asarray(x, float)
    y = np.asarray(y, float)
    dx = x - x.mean()
    dy = y - y.mean()
    den = math.sqrt((dx * dx).sum() * (dy * dy).sum())
    if den == 0:
        return float('nan')
    return (dx * dy).sum() / den


def ols(x, y):
    x = np.asarray(x, float)
    y = np.asarray(y, float)
    n = len(x)
    xb = x.mean()
    sxx = ((x - xb) ** 2).sum()
    b = ((x - xb) * (y - y.mean())).sum() / sxx
    a = y.mean() - b * xb
    res = y - a - b * x
    s2 = (res ** 2).sum() / (n - 2)
    return {'a': a, 'b': b, 'res': res, 's2': s2, 'sxx': sxx, 'xbar': xb, 'n': n}


def tbr_posterior(xp, yp, xt, yt):
    """Cumulative-effect posterior per analysed day: Student t, df = n-2, loc_t, scale_t."""
    f = ols(xp, yp)
    xt = np.asarray(xt, float)
    yt = np.asarray(yt, float)
    eff = yt - f['a'] - f['b'] * xt
    loc = np.cumsum(eff)
    t = np.arange(1, len(xt) + 1)
    S = np.cumsum(xt - f['xbar'])
    scale = np.sqrt(f['s2'] * (t + t ** 2 / f['n'] + S ** 2 / f['sxx']))
    return {'df': f['n'] - 2, 'loc': loc, 'scale': scale, 'eff': eff, 'fit': f}
