"""Shared core of the search-family checks (C01-C04, C09, C12-C14): case format, execution, reference, oracles.

case = {'panel': {...}, 'rows': [row|None per data geo], 'nomatrix': bool, 'extra': row|None,
        'kw': {parameter: value}, 'method': 'exhaustive_search'|'greedy_search'}
Geo IDs are the integers 0..G-1 in the input frame, hence the strings '0'.. in every library answer.
"""
import dataclasses
import itertools
import json
import math
import signal
import traceback

import numpy as np
import pandas as pd

from mc import env  # noqa: F401  (sets sys.path)
from mc import panels
from mc.ref import elig as relig
from mc.ref import panel as rpanel
from mc.ref import stats as rstats

from matched_markets.methodology.geoeligibility import GeoEligibility
from matched_markets.methodology.tbrmatchedmarkets import TBRMatchedMarkets
from matched_markets.methodology.tbrmmdata import TBRMMData
from matched_markets.methodology.tbrmmdesignparameters import TBRMMDesignParameters
from matched_markets.methodology.tbrmmdiagnostics import TBRMMDiagnostics

BASE = {'n_test': 3, 'iroas': 1.0}
EXTRA_ID = 'zz9'
RTOL = 1e-9
METHODS = ('exhaustive_search', 'greedy_search')
CASE_TIME_LIMIT_S = 120.0   # ~1000 x the median search; a search that exceeds it counts as non-terminating


# ------------------------------------------------------------------ building library inputs
_FRAME_CACHE = {}


def frame(p):
    key = json.dumps(p, sort_keys=True)
    if key not in _FRAME_CACHE:
        rows = panels.rows(p)
        ids = p.get('ids', 'int')
        df = pd.DataFrame({'date': pd.to_datetime([r[0] for r in rows]),
                           'geo': [(str(r[1]) if ids == 'str' else r[1]) for r in rows],
                           'sales': [r[2] for r in rows]})
        _FRAME_CACHE[key] = df
    return _FRAME_CACHE[key].copy()


def params(kw):
    args = dict(BASE)
    for k, v in kw.items():
        args[k] = tuple(v) if isinstance(v, list) else v
    return TBRMMDesignParameters(**args)


def eligibility(case):
    if case.get('nomatrix'):
        return None
    rows = case['rows']
    ids, rr = [], []
    for g, r in enumerate(rows):
        if r is not None:
            ids.append(str(g))
            rr.append(r)
    if case.get('extra') is not None:
        ids.append(EXTRA_ID)
        rr.append(case['extra'])
    df = pd.DataFrame({'geo': ids, 'control': [r[0] for r in rr], 'treatment': [r[1] for r in rr],
                       'exclude': [r[2] for r in rr]})
    return GeoEligibility(df)


def _site(e):
    tb = traceback.extract_tb(e.__traceback__)
    lib = [f for f in tb if 'matched_markets' in f.filename]
    if not lib:
        return 'outside-library'
    f = lib[-1]
    return '%s:%s' % (f.filename.split('/')[-1], f.name)


class DataStageError(Exception):
    """The data object itself could not be built (C15 territory, not a search verdict)."""

    def __init__(self, e):
        Exception.__init__(self, str(e))
        self.orig = e


def build_mm(case):
    df = frame(case['panel'])
    ge = eligibility(case)
    par = params(case['kw'])
    prior = case.get('prior')
    if prior and prior.get('shared_eligibility'):
        if ge is not None:
            # NON-INITIAL state of the caller's ELIGIBILITY object: it has already served another data object (another
            # response metric of the same geos whose volume ranking is the reverse) and a matched-markets object on it
            df2 = df.copy()
            mean = df2.groupby('geo')['sales'].transform('mean')
            df2['sales'] = df2['sales'] * 4096.0 / (mean * mean)
            try:
                mm2 = TBRMatchedMarkets(TBRMMData(df2, 'sales', ge), params(prior['kw']))
                mm2.geo_assignments
                mm2.count_max_designs()
            except ValueError:
                pass
        prior = None
    try:
        data = TBRMMData(df, 'sales', ge)
    except Exception as e:
        raise DataStageError(e)

    def other_object_uses_the_data():
        mm0 = TBRMatchedMarkets(data, params(prior['kw']))
        try:
            if prior['op'] == 'geo_assignments':
                mm0.geo_assignments
            else:
                getattr(mm0, prior['op'])()
        except ValueError:
            pass
    if prior and not prior.get('interleave'):
        # Start from a NON-initial state of the data object: another matched-markets object built on the SAME data
        # object (other parameters, window not shorter than this case's) has already been used.
        other_object_uses_the_data()
    mm = TBRMatchedMarkets(data, par)
    if prior and prior.get('interleave'):
        # Interleaving: this object answers a query first, THEN the other object uses the shared data object, then
        # this object is asked for the search (its answers must not depend on what the other object installed).
        try:
            mm.count_max_designs()
        except ValueError:
            pass
        other_object_uses_the_data()
    return mm, par


class _Timeout(Exception):
    pass


def _alarm(signum, frm):
    raise _Timeout()


def _f(v):
    return float(v) if v is not None else None


def extract_design(d):
    diag = d.diag
    sd = d.score.diag
    aa, bb, dw = diag.aatest, diag.bbtest, diag.dwtest
    return {
        'T': sorted(str(g) for g in d.treatment_geos), 'C': sorted(str(g) for g in d.control_geos),
        'ids_are_str': all(isinstance(g, str) for g in list(d.treatment_geos) + list(d.control_geos)),
        'score': [float(v) for v in d.score.score],
        'x': [float(v) for v in diag.x], 'y': [float(v) for v in diag.y],
        'sx': [float(v) for v in sd.x], 'sy': [float(v) for v in sd.y],
        'corr': _f(diag.corr), 'ri': _f(diag.required_impact),
        'scorr': _f(sd.corr), 'sri': _f(sd.required_impact),
        'tests': [bool(diag.corr_test), aa.test_ok if aa.test_ok is None else bool(aa.test_ok),
                  bool(bb.test_ok), bool(dw.test_ok)],
        'id_diag': id(diag), 'id_sdiag': id(sd),
    }


def observe(case, want_admitted=True):
    """Run the real library on the case; never raises for library exceptions."""
    obs = {'exc': None, 'stage': None, 'designs': None, 'admitted': None, 'must': None, 'par_changed': None}
    try:
        if want_admitted:
            obs['stage'] = 'construct'
            mm0, _ = build_mm(case)
            obs['stage'] = 'admitted'
            obs['admitted'] = sorted(mm0.geos_within_constraints)
            obs['must'] = sorted(mm0.geos_must_include)
            obs['impact'] = {str(k): float(v) for k, v in mm0.geo_req_impact.items()}
        obs['stage'] = 'construct'
        mm, par = build_mm(case)
        before = dataclasses.asdict(par)
        obs['stage'] = 'search'
        old = signal.signal(signal.SIGALRM, _alarm)
        signal.setitimer(signal.ITIMER_REAL, CASE_TIME_LIMIT_S)
        try:
            res = getattr(mm, case['method'])()
        finally:
            signal.setitimer(signal.ITIMER_REAL, 0)
            signal.signal(signal.SIGALRM, old)
        obs['stage'] = 'extract'
        if not isinstance(res, list):
            obs['exc'] = {'type': 'NotAList:' + type(res).__name__, 'site': 'return', 'msg': ''}
            return obs
        obs['par_changed'] = dataclasses.asdict(par) != before
        obs['designs'] = [extract_design(d) for d in res]
        obs['stage'] = 'done'
    except DataStageError as e:
        obs['stage'] = 'data'
        obs['exc'] = {'type': type(e.orig).__name__, 'site': _site(e.orig), 'msg': str(e.orig)[:200]}
    except _Timeout:
        obs['exc'] = {'type': 'NonTermination', 'site': case['method'], 'msg': 'no result after %ss' % CASE_TIME_LIMIT_S}
    except Exception as e:  # library exception = observation
        obs['exc'] = {'type': type(e).__name__, 'site': _site(e), 'msg': str(e)[:200]}
    return obs


# ------------------------------------------------------------------ reference context
_SCORE_CACHE = {}


class Ref:
    """Everything the oracles need, computed from the raw rows and the raw eligibility rows only."""

    def __init__(self, case):
        self.case = case
        kw = case['kw']
        self.kw = kw
        p = case['panel']
        self.G = p['G']
        self.dates, self.tab = rpanel.table(panels.rows(p))
        self.n_test = kw.get('n_test', BASE['n_test'])
        self.iroas = kw.get('iroas', BASE['iroas'])
        self.npm = kw.get('n_pretest_max', 90)
        self.series = rpanel.window(self.tab, self.npm)
        self.share = rpanel.shares(self.tab)
        self.stat = (self.n_test, kw.get('flevel', 0.9), kw.get('sig_level', 0.9), kw.get('power_level', 0.8))
        self.rho_max = kw.get('rho_max', 0.995)
        self.data_geos = set(self.tab)
        # effective row of every geo that is both in the data and in the matrix
        if case.get('nomatrix'):
            self.rowd = {g: (1, 1, 1) for g in self.data_geos}
            self.matrix_geos = set(self.data_geos)
        else:
            self.rowd = {str(g): tuple(r) for g, r in enumerate(case['rows']) if r is not None}
            self.matrix_geos = set(self.rowd)
            if case.get('extra') is not None:
                self.matrix_geos.add(EXTRA_ID)
        self.expect_data_error = (case.get('extra') is not None and not case.get('nomatrix')
                                  and case['extra'][2] == 0)
        self.assignable = {g for g, r in self.rowd.items() if r != (0, 0, 1)}
        self.must = {g for g, r in self.rowd.items() if r[2] == 0}
        self.impact = {g: rstats.est_impact(self.series[g], self.rho_max, *self.stat) for g in self.data_geos}
        sr = kw.get('treatment_share_range')
        br = kw.get('budget_range')
        self.big = set()
        self.big_margin = float('inf')
        if sr is not None:
            for g in self.data_geos:
                self.big_margin = min(self.big_margin, abs(self.share[g] - sr[1]) / sr[1])
                if self.share[g] > sr[1]:
                    self.big.add(g)
        if br is not None and br[1] > 0:
            lim = br[1] * self.iroas
            for g in self.data_geos:
                self.big_margin = min(self.big_margin, abs(self.impact[g] - lim) / lim)
                if self.impact[g] > lim:
                    self.big.add(g)
        self.untruncated = (self.assignable - self.big) | self.must
        self._scores = _SCORE_CACHE
        self._pkey = json.dumps(p, sort_keys=True)

    # -- per-design reference quantities
    def xy(self, T, C):
        return rpanel.agg(self.series, C), rpanel.agg(self.series, T)

    def corr_ri(self, T, C):
        x, y = self.xy(T, C)
        c = rstats.corr(x, y)
        return c, rstats.est_impact(y, c, *self.stat)

    def optimistic_budget(self, S):
        y = rpanel.agg(self.series, S)
        return rstats.est_impact(y, self.rho_max, *self.stat) / self.iroas

    def lib_score(self, T, C):
        """Score tuple composed by the oracle from a FRESH library diagnostics object on reference series."""
        key = (self._pkey, self.npm, self.stat, self.kw.get('min_corr', 0.8), frozenset(T), frozenset(C))
        if key not in self._scores:
            x, y = self.xy(T, C)
            par = params({k: v for k, v in self.kw.items()
                          if k in ('n_test', 'iroas', 'sig_level', 'power_level', 'flevel', 'min_corr', 'rho_max')})
            f = TBRMMDiagnostics(np.array(y), par)
            f.x = np.array(x)
            tests = (f.corr_test, f.aatest.test_ok, f.bbtest.test_ok, f.dwtest.test_ok)
            self._scores[key] = {'tests': tests, 'corr': float(f.corr), 'ri': float(f.required_impact)}
        return self._scores[key]

    def score_tuple(self, T, C, method):
        s = self.lib_score(T, C)
        br = self.kw.get('budget_range')
        last = (br[1] / s['ri']) if (br is not None and method == 'exhaustive_search') else 1.0 / s['ri']
        t = s['tests']
        return (int(t[0]), int(t[1]), int(t[2]), int(t[3]), round(s['corr'], 2), last)

    # -- constraint evaluation of a design; returns dict name -> (ok_wide, ok_narrow)
    def constraints(self, T, C, admitted):
        kw = self.kw
        out = {}
        out['sizes'] = (relig.sizes_ok(len(T), len(C), kw),) * 2
        sT = sum(self.share[g] for g in T)
        sC = sum(self.share[g] for g in C)
        vt = kw.get('volume_ratio_tolerance')
        if vt is not None:
            r = sC / sT if sT else float('inf')      # a treatment group without any volume: no finite ratio
            lo, hi = 1 / (1 + vt), 1 + vt
            out['volume'] = (lo * (1 - RTOL) <= r <= hi * (1 + RTOL), lo * (1 + RTOL) <= r <= hi * (1 - RTOL))
        sr = kw.get('treatment_share_range')
        if sr is not None:
            sadm = sum(self.share[g] for g in admitted) or float('nan')
            readings = [sT, sT / sadm]
            wide = [sr[0] * (1 - RTOL) <= v <= sr[1] * (1 + RTOL) for v in readings]
            narrow = [sr[0] * (1 + RTOL) <= v <= sr[1] * (1 - RTOL) for v in readings]
            out['share'] = (any(wide), all(narrow))
        br = kw.get('budget_range')
        if br is not None:
            _, ri = self.corr_ri(T, C)
            b = ri / self.iroas
            out['budget'] = (br[0] * (1 - RTOL) <= b <= br[1] * (1 + RTOL),
                             br[0] * (1 + RTOL) <= b <= br[1] * (1 - RTOL))
        return out

    def feasible_sets(self, admitted, with_exemption=True):
        """-> (F_any, F_must, exempt): designs feasible under the generous / the strict reading."""
        adm = [g for g in admitted if g in self.rowd]
        F_any, F_must, exempt = set(), set(), set()
        br = self.kw.get('budget_range')
        tfixed = frozenset(g for g in adm if self.rowd[g] == (0, 1, 0))
        opt_cache = {}

        def outside(S):
            if S not in opt_cache:
                b = self.optimistic_budget(S)
                opt_cache[S] = (b > br[1] * (1 - RTOL)) or (b < br[0] * (1 + RTOL))
            return opt_cache[S]
        for T, C in relig.legal_designs(self.rowd, adm):
            c = self.constraints(T, C, adm)
            if all(v[0] for v in c.values()):
                F_any.add((T, C))
                if all(v[1] for v in c.values()):
                    F_must.add((T, C))
                    if br is not None and with_exemption:
                        ex = False
                        Tl = sorted(T)
                        for r in range(1, len(Tl) + 1):
                            for S in itertools.combinations(Tl, r):
                                S = frozenset(S)
                                if tfixed <= S and outside(S):
                                    ex = True
                                    break
                            if ex:
                                break
                        if ex:
                            exempt.add((T, C))
        return F_any, F_must, exempt


def score_gt(a, b, tol=1e-9):
    """a scores strictly higher than b, by more than the tolerance (lexicographic)."""
    for u, v in zip(a, b):
        if math.isclose(u, v, rel_tol=tol, abs_tol=0.0):      # purely relative: responses may be in any unit
            continue
        return u > v
    return False


def close(a, b, tol=RTOL, abs_tol=1e-12):
    if a is None or b is None:
        return a is b
    if a != a and b != b:
        return True
    return math.isclose(a, b, rel_tol=tol, abs_tol=abs_tol)


# ------------------------------------------------------------------ oracles
def oracle_total(case, obs):
    """C09: a list of designs, or ValueError; nothing else."""
    e = obs['exc']
    if e is not None and obs['stage'] == 'data':
        return []   # the data object was not accepted: outside the quantifier (C15 judges that constructor)
    if e is not None and e['type'] != 'ValueError':
        return [{'key': 'C09:%s@%s' % (e['type'], e['site']),
                 'msg': '%s raised %s at %s (%s); stage=%s' % (case['method'], e['type'], e['site'], e['msg'],
                                                              obs['stage'])}]
    return []


def oracle_legal(case, ref, obs):
    """C01: every returned design is a legal assignment (judged from the raw rows)."""
    v = []
    for i, d in enumerate(obs['designs'] or ()):
        T, C = set(d['T']), set(d['C'])
        where = '%s design #%d T=%s C=%s' % (case['method'], i, d['T'], d['C'])
        if not T or not C:
            v.append(('empty-group', where))
        if T & C:
            v.append(('overlap', where))
        if not d['ids_are_str']:
            v.append(('ids-not-strings', where))
        stray = (T | C) - ref.data_geos
        if stray:
            v.append(('geo-not-in-data', where + ' stray=%s' % sorted(stray)))
        for g in sorted((T | C) & ref.data_geos):
            if g not in ref.rowd:
                v.append(('geo-absent-from-matrix-used', where + ' geo=' + g))
                continue
            r = ref.rowd[g]
            if r == (0, 0, 1):
                v.append(('must-exclude-geo-used', where + ' geo=' + g))
            if g in T and not r[1]:
                v.append(('treatment-ineligible', where + ' geo=' + g))
            if g in C and not r[0]:
                v.append(('control-ineligible', where + ' geo=' + g))
        for g in sorted(ref.must):
            if g not in T | C:
                v.append(('must-include-missing', where + ' geo=%s row=%s' % (g, ref.rowd[g])))
    return [{'key': 'C01:' + k, 'msg': m} for k, m in v]


def oracle_admitted(case, ref, obs):
    """C01 (observe_at geos_within_constraints): documented rule for the admitted set."""
    adm = obs.get('admitted')
    if adm is None:
        return [], 0
    adm = set(adm)
    v = []
    amb = 0
    if not ref.must <= adm:
        v.append(('admitted-drops-must-include', 'admitted=%s must=%s' % (sorted(adm), sorted(ref.must))))
    if not adm <= ref.assignable:
        v.append(('admitted-not-assignable', 'admitted=%s assignable=%s' % (sorted(adm), sorted(ref.assignable))))
    ngm = ref.kw.get('n_geos_max')
    if ref.big_margin < 1e-9:
        return [{'key': 'C01:' + k, 'msg': m} for k, m in v], 1
    if ngm is None or len(ref.untruncated) <= ngm:
        if adm != ref.untruncated:
            v.append(('admitted-set-differs', 'admitted=%s documented rule=%s (assignable=%s big=%s must=%s)' % (
                sorted(adm), sorted(ref.untruncated), sorted(ref.assignable), sorted(ref.big), sorted(ref.must))))
    else:
        if not adm <= ref.untruncated:
            v.append(('admitted-outside-candidates', 'admitted=%s candidates=%s' % (sorted(adm), sorted(ref.untruncated))))
        if len(adm) > max(ngm, len(ref.must)):
            v.append(('admitted-exceeds-n_geos_max', 'admitted=%s n_geos_max=%s' % (sorted(adm), ngm)))
        if len(adm) < min(ngm, len(ref.untruncated)):
            v.append(('admitted-fewer-than-n_geos_max', 'admitted=%s n_geos_max=%s candidates=%s' % (
                sorted(adm), ngm, sorted(ref.untruncated))))
        # the optional places go to the geos with the highest impact
        opt_in = [g for g in adm if g not in ref.must and g in ref.untruncated]
        opt_out = [g for g in ref.untruncated if g not in adm and g not in ref.must]
        for a in opt_in:
            for b in opt_out:
                if ref.impact[b] > ref.impact[a] * (1 + 1e-9):
                    v.append(('admitted-not-highest-impact', 'kept %s (impact %.6g) but dropped %s (impact %.6g)' % (
                        a, ref.impact[a], b, ref.impact[b])))
    return [{'key': 'C01:' + k, 'msg': m} for k, m in v], amb


def oracle_constraints(case, ref, obs):
    """C02: every returned design satisfies every specified numeric constraint (recomputed from raw data)."""
    v = []
    adm = obs.get('admitted') or sorted(ref.untruncated)
    for i, d in enumerate(obs['designs'] or ()):
        T, C = frozenset(d['T']), frozenset(d['C'])
        if not T or not C or not (T | C) <= ref.data_geos:
            continue  # C01 territory
        where = '%s design #%d T=%s C=%s' % (case['method'], i, d['T'], d['C'])
        c = ref.constraints(T, C, adm)
        kw = ref.kw
        if not c['sizes'][0]:
            tr, cr, gt = kw.get('treatment_geos_range'), kw.get('control_geos_range'), kw.get('geo_ratio_tolerance')
            if tr is not None and not tr[0] <= len(T) <= tr[1]:
                v.append(('treatment-size', where + ' range=%s' % (tr,)))
            if cr is not None and not cr[0] <= len(C) <= cr[1]:
                v.append(('control-size', where + ' range=%s' % (cr,)))
            if gt is not None and not relig.sizes_ok(len(T), len(C), {'geo_ratio_tolerance': gt}):
                v.append(('geo-ratio', where + ' tol=%s' % gt))
        for name in ('volume', 'share', 'budget'):
            if name in c and not c[name][0]:
                extra = ''
                if name == 'budget':
                    extra = ' budget=%.6g range=%s' % (ref.corr_ri(T, C)[1] / ref.iroas, kw.get('budget_range'))
                if name == 'share':
                    extra = ' share_vs_all=%.6g range=%s' % (sum(ref.share[g] for g in T), kw.get('treatment_share_range'))
                if name == 'volume':
                    extra = ' ratio=%.6g tol=%s' % (sum(ref.share[g] for g in C) / sum(ref.share[g] for g in T),
                                                    kw.get('volume_ratio_tolerance'))
                v.append((name, where + extra))
    return [{'key': 'C02:%s:%s' % (case['method'].split('_')[0], k), 'msg': m} for k, m in v]


def oracle_attached(case, ref, obs):
    """C04: series, correlation, impact, verdicts and score of every design belong to its reported geos."""
    v = []
    ids = {}
    for i, d in enumerate(obs['designs'] or ()):
        T, C = frozenset(d['T']), frozenset(d['C'])
        if not T or not C or not (T | C) <= ref.data_geos:
            continue
        where = '%s design #%d T=%s C=%s' % (case['method'], i, d['T'], d['C'])
        x, y = ref.xy(T, C)
        if d['x'] != x or d['y'] != y:
            v.append(('series', where + ' diag series differ from sums over reported geos in the most recent %d dates'
                      % min(ref.npm, len(ref.dates))))
        if d['sx'] != x or d['sy'] != y:
            v.append(('score-series', where + ' series held by the score differ from the reported geos'))
        c, ri = ref.corr_ri(T, C)
        if not (close(d['corr'], c) and close(d['ri'], ri, abs_tol=0.0)):
            v.append(('corr-impact', where + ' corr=%r ri=%r expected corr=%r ri=%r' % (d['corr'], d['ri'], c, ri)))
        if not (close(d['scorr'], c) and close(d['sri'], ri, abs_tol=0.0)):
            v.append(('score-corr-impact', where + ' score.diag corr=%r ri=%r expected %r %r' % (d['scorr'], d['sri'], c, ri)))
        s = ref.lib_score(T, C)
        exp_tests = [bool(t) for t in s['tests']]
        if [bool(t) for t in d['tests']] != exp_tests:
            v.append(('verdicts', where + ' tests=%s expected=%s' % (d['tests'], exp_tests)))
        exp = ref.score_tuple(T, C, case['method'])
        if len(d['score']) != 6 or not all(close(a, b, abs_tol=0.0) for a, b in zip(d['score'], exp)):
            v.append(('score', where + ' score=%s expected=%s' % (d['score'], list(exp))))
        for tag in ('id_diag', 'id_sdiag'):
            # (the two holders of ONE design may be the same object; what must not happen is that DIFFERENT designs share one)
            if d[tag] in ids and ids[d[tag]] != i:
                v.append(('shared-diagnostics-object', where + ' shares its diagnostics object with design #%d' % ids[d[tag]]))
            ids[d[tag]] = i
    return [{'key': 'C04:%s:%s' % (case['method'].split('_')[0], k), 'msg': m} for k, m in v]


def oracle_ordered_capped(case, obs):
    """C14 (search part): at most n_designs designs, in non-increasing score order."""
    v = []
    ds = obs['designs'] or []
    k = case['kw'].get('n_designs', 1)
    if len(ds) > k:
        v.append(('more-than-n_designs', '%s returned %d designs, n_designs=%d' % (case['method'], len(ds), k)))
    for i in range(len(ds) - 1):
        if score_gt(tuple(ds[i + 1]['score']), tuple(ds[i]['score'])):
            v.append(('not-best-first', '%s design #%d scores higher than #%d: %s > %s' % (
                case['method'], i + 1, i, ds[i + 1]['score'], ds[i]['score'])))
    return [{'key': 'C14:search:' + k_, 'msg': m} for k_, m in v]


def oracle_optimal(case, ref, obs):
    """C03: exhaustive result = the k best of the feasible set (brute force), best first, distinct."""
    assert case['method'] == 'exhaustive_search'
    v = []
    info = {}
    adm = obs.get('admitted')
    if adm is None:
        return [], info
    F_any, F_must, exempt = ref.feasible_sets(adm)
    must = F_must - exempt
    info.update(F_any=len(F_any), F_must=len(F_must), exempt=len(exempt))
    k = case['kw'].get('n_designs', 1)
    if obs['exc'] is not None:
        if obs['exc']['type'] == 'ValueError' and must:
            v.append(('rejected-although-feasible', 'ValueError (%s at %s) although %d feasible designs exist, e.g. %s' % (
                obs['exc']['msg'], obs['exc']['site'], len(must), _fmt(sorted(must, key=_dkey)[0]))))
        return [{'key': 'C03:' + a, 'msg': b} for a, b in v], info
    ds = obs['designs']
    got = [(frozenset(d['T']), frozenset(d['C'])) for d in ds]
    if len(set(got)) != len(got):
        v.append(('duplicate-designs', 'result contains the same design twice: %s' % [_fmt(g) for g in got]))
    for g in got:
        if g not in F_any:
            v.append(('returned-infeasible', 'returned design %s is not in the reference feasible set' % _fmt(g)))
    if len(set(got)) < min(k, len(must)):
        missing = sorted(must - set(got), key=_dkey)
        v.append(('too-few', 'returned %d designs, n_designs=%d, but %d feasible non-exempt designs exist; e.g. missing %s' % (
            len(got), k, len(must), _fmt(missing[0]))))
    if ds:
        scores = [ref.score_tuple(T, C, 'exhaustive_search') for T, C in got]
        worst = min(scores)
        for d in sorted(must - set(got), key=_dkey):
            s = ref.score_tuple(d[0], d[1], 'exhaustive_search')
            if score_gt(s, worst):
                v.append(('missed-better', 'feasible design %s scores %s > worst returned %s' % (_fmt(d), s, worst)))
                break
        for i in range(len(scores) - 1):
            if score_gt(scores[i + 1], scores[i]):
                v.append(('not-best-first', 'position %d scores higher than %d (reference scores %s, %s)' % (
                    i + 1, i, scores[i + 1], scores[i])))
    return [{'key': 'C03:' + a, 'msg': b} for a, b in v], info


def _dkey(d):
    return (len(d[0]) + len(d[1]), sorted(d[0]), sorted(d[1]))


def _fmt(d):
    return 'T=%s C=%s' % (sorted(d[0]), sorted(d[1]))


def oracle_greedy_vs_exhaustive(case, ref, obs_g, obs_e):
    """C13: greedy designs lie in the feasible set ranked by the exhaustive search and never beat its best."""
    v = []
    info = {}
    adm = obs_e.get('admitted')
    if adm is None:
        return [], info
    F_any, F_must, _ = ref.feasible_sets(adm, with_exemption=False)
    info.update(F_any=len(F_any), F_must=len(F_must))
    gd = obs_g['designs'] or []
    ed = obs_e['designs'] or []
    best_ref = None
    for d in F_any:
        s = ref.score_tuple(d[0], d[1], 'greedy_search')
        if best_ref is None or s > best_ref:
            best_ref = s
    for i, d in enumerate(gd):
        g = (frozenset(d['T']), frozenset(d['C']))
        if g not in F_any:
            v.append(('greedy-outside-feasible-set', 'greedy design #%d %s is not in the feasible set (|F|=%d)' % (
                i, _fmt(g), len(F_any))))
            continue
        if ed and score_gt(tuple(d['score']), tuple(ed[0]['score'])):
            v.append(('greedy-beats-exhaustive', 'greedy design %s scores %s > exhaustive best %s' % (
                _fmt(g), d['score'], ed[0]['score'])))
        if best_ref is not None and score_gt(tuple(d['score']), best_ref):
            v.append(('greedy-beats-reference-best', 'greedy %s scores %s > brute-force best %s' % (_fmt(g), d['score'], best_ref)))
    if obs_e['exc'] is None and not ed and gd:
        v.append(('greedy-nonempty-exhaustive-empty', 'exhaustive found nothing but greedy returned %d designs' % len(gd)))
    if not F_any and gd:
        v.append(('greedy-nonempty-feasible-set-empty', 'feasible set empty but greedy returned %s' % [_fmt((d['T'], d['C'])) for d in gd]))
    return [{'key': 'C13:' + a, 'msg': b} for a, b in v], info


# ------------------------------------------------------------------ explicit form of a case (for replays)
def explain(case):
    p = case['panel']
    out = {'panel_rows(date,geo,sales)': panels.rows(p),
           'eligibility_rows(control,treatment,exclude) per geo': None if case.get('nomatrix') else {
               str(g): r for g, r in enumerate(case['rows'])},
           'extra_matrix_geo_not_in_data': case.get('extra'),
           'parameters': dict(BASE, **case['kw']), 'method': case.get('method')}
    out['python'] = (
        "import pandas as pd\n"
        "from matched_markets.methodology import geoeligibility, tbrmmdata, tbrmmdesignparameters, tbrmatchedmarkets\n"
        "rows = <panel_rows>; df = pd.DataFrame(rows, columns=['date','geo','sales']); df['date']=pd.to_datetime(df['date'])\n"
        "ge = geoeligibility.GeoEligibility(pd.DataFrame(<eligibility as columns geo,control,treatment,exclude>))  # or None\n"
        "par = tbrmmdesignparameters.TBRMMDesignParameters(**<parameters, lists as tuples>)\n"
        "mm = tbrmatchedmarkets.TBRMatchedMarkets(tbrmmdata.TBRMMData(df, 'sales', ge), par)\n"
        "print(getattr(mm, <method>)())\n")
    return out
