"""setup_cmd: verify interpreter, imports, schemas and the reference models (seconds)."""
import json
import os
import sys

from mc import env


def main():
    import numpy, pandas, scipy, statsmodels  # noqa
    from mc.ref import elig, panel, stats  # noqa
    from mc import searchcore, spaces, panels  # noqa
    # reference design-space count vs a second formulation (3^G minus designs with an empty group)
    for G in range(1, 6):
        rowd = {str(g): (1, 1, 1) for g in range(G)}
        n = sum(1 for _ in elig.legal_designs(rowd, rowd))
        assert n == 3 ** G - 2 * 2 ** G + 1, (G, n)
    # reference OLS / TBR posterior on a hand-computed case: y = 1 + 2x exactly + one residual pattern
    post = stats.tbr_posterior([0, 1, 2, 3], [1, 3, 5, 8], [4], [9])
    f = post['fit']
    assert abs(f['b'] - 2.3) < 1e-12 and abs(f['a'] - 0.8) < 1e-12, f
    assert post['df'] == 2
    assert abs(stats.corr([1, 2, 3], [2, 4, 6.5]) - 4.5 / (61.0 / 3.0) ** 0.5) < 1e-12
    os.makedirs(os.path.join(env.VERIF_DIR, 'evidence'), exist_ok=True)
    print('selftest ok; library at', env.REPO)


if __name__ == '__main__':
    sys.exit(main())
