"""Bounded configuration spaces for the search-family checks.

FULL(G):  every eligibility matrix over 8 row options per geo (7 legal types + absent from the matrix)
          x every subset of the six C02 constraints (each at one tight value) x n_geos_max in {unset, 2}.
DEV(G,d): every configuration with at most d deviations from (all rows free, all parameters default); a
          deviating dimension ranges over its whole alphabet.  This is the analogue of preemption bounding.
Both are enumerated simplest-first (fewest deviations first), so the first counterexample is a smallest one.
"""
import itertools

from mc import panels
from mc.ref import elig as relig
from mc.ref import panel as rpanel
from mc.ref import stats as rstats

ROW_ALTS = [r for r in relig.ROWS7 if r != (1, 1, 1)] + [None]   # deviations of one geo's row
SHARES = [(0.001, 0.002), (0.1, 0.4), (0.3, 0.7), (0.05, 0.95)]

_BUDGETS = {}


def _sig3(x, up):
    """Round to 3 significant digits, away from x in the given direction."""
    from math import floor, log10
    if x <= 0:
        return 0.0
    e = floor(log10(x)) - 2
    q = 10.0 ** e
    n = floor(x / q)
    return round((n + 1) * q if up else n * q, 10)


def budget_alphabet(p, n_test=3, iroas=1.0):
    """Budget ranges relative to the panel's reference budgets (all designs, all geos free, default window)."""
    key = (p['name'], p['G'], p['T'], p.get('seed', 0), p.get('variant', 'plain'), p.get('scale_pow', 0))
    if key in _BUDGETS:
        return _BUDGETS[key]
    _, tab = rpanel.table(panels.rows(p))
    ser = rpanel.window(tab, 90)
    geos = sorted(tab)
    rowd = {g: (1, 1, 1) for g in geos}
    buds = []
    for T, C in relig.legal_designs(rowd, geos):
        x, y = rpanel.agg(ser, C), rpanel.agg(ser, T)
        c = rstats.corr(x, y)
        b = rstats.est_impact(y, c, n_test, 0.9, 0.9, 0.8) / iroas if c == c else float('nan')
        if b == b and b > 0:           # designs on a flat series have no defined budget: not part of the alphabet
            buds.append(b)
    buds.sort()

    def q(f):
        return buds[int(f * (len(buds) - 1))]
    if len(buds) < 2:
        out = [(0.0, 1.0), (1.0, 1e6)]
    else:
        out = [(0.0, _sig3(q(0.1), True)), (_sig3(q(0.25), False), _sig3(q(0.75), True)),
               (_sig3(q(0.9), False), _sig3(2 * buds[-1], True)), (_sig3(10 * buds[-1], True), _sig3(20 * buds[-1], True))]
    _BUDGETS[key] = out
    return out


def param_dims(p, include, k_values=(1, 50), base_k=3):
    """-> list of (name, [non-default values]).  `include` selects the dimensions a property mentions."""
    G, T = p['G'], p['T']
    sizes = [(1, 1), (1, 2), (2, 2), (2, 3), (G, G), (G + 1, G + 2)]
    sizes = sorted(set(sizes))
    dims = {
        'treatment_geos_range': sizes,
        'control_geos_range': sizes,
        'geo_ratio_tolerance': [0.5, 1.0, 2.0],
        'volume_ratio_tolerance': [0.25, 1.0, 4.0],
        'treatment_share_range': SHARES,
        'budget_range': budget_alphabet(p),
        'n_geos_max': sorted({2, 3, G} - {1}),
        'n_pretest_max': sorted({6, T - 2}),          # n_test + 3 (with the base n_test = 3) and T - 2
        'n_designs': list(k_values),
        'n_test': [1],
        'iroas': [2.5],
        'rho_max': [0.9],
        'sig_level': [0.8],
        'power_level': [0.9],
        'flevel': [0.95],
        'min_corr': [0.9],
    }
    return [(k, dims[k]) for k in dims if k in include]


C02_SIX = ['treatment_geos_range', 'control_geos_range', 'geo_ratio_tolerance', 'volume_ratio_tolerance',
           'treatment_share_range', 'budget_range']
ALL_PARAMS = C02_SIX + ['n_geos_max', 'n_pretest_max', 'n_designs', 'n_test', 'iroas', 'rho_max', 'sig_level',
                        'power_level', 'flevel', 'min_corr']


def _jsonable(v):
    return list(v) if isinstance(v, tuple) else v


def dev_configs(p, d, include, base_kw=None, row_alts=ROW_ALTS, with_matrix_level=True, k_values=(1, 50)):
    """All (rows, kw, flags) with at most d deviations.  Yields dicts without 'method'."""
    G = p['G']
    dims = [(('row', g), list(row_alts)) for g in range(G)]
    dims += [(('par', name), vals) for name, vals in param_dims(p, include, k_values)]
    if with_matrix_level:
        dims.append((('nomatrix',), [True]))
        dims.append((('extra',), [(1, 0, 1), (1, 1, 1), (1, 0, 0)]))
    base_kw = dict(base_kw or {})
    for n in range(0, d + 1):
        for combo in itertools.combinations(range(len(dims)), n):
            names = [dims[i][0] for i in combo]
            # 'nomatrix' only makes sense with no row deviation (there is no matrix to deviate)
            if ('nomatrix',) in names and any(nm[0] in ('row', 'extra') for nm in names):
                continue
            for vals in itertools.product(*[dims[i][1] for i in combo]):
                rows = [[1, 1, 1] for _ in range(G)]
                kw = dict(base_kw)
                case = {'panel': p, 'nomatrix': False, 'extra': None}
                for nm, v in zip(names, vals):
                    if nm[0] == 'row':
                        rows[nm[1]] = list(v) if v is not None else None
                    elif nm[0] == 'par':
                        kw[nm[1]] = _jsonable(v)
                    elif nm[0] == 'nomatrix':
                        case['nomatrix'] = True
                    elif nm[0] == 'extra':
                        case['extra'] = list(v)
                if all(r is None for r in rows) and case['extra'] is None and not case['nomatrix']:
                    continue
                case['rows'] = rows
                case['kw'] = kw
                case['deviations'] = n
                yield case


def tight_values(p):
    b = budget_alphabet(p)
    return {'treatment_geos_range': [2, 2] if p['G'] >= 3 else [1, 1], 'control_geos_range': [1, 1],
            'geo_ratio_tolerance': 0.5, 'volume_ratio_tolerance': 1.0,
            'treatment_share_range': [0.1, 0.4], 'budget_range': list(b[1])}


def full_configs(p, subsets=None, ngm_values=(None, 2), base_kw=None, row_opts=None):
    """FULL(G).  `subsets`: iterable of constraint-name tuples (default: all 64 subsets of the six)."""
    G = p['G']
    tight = tight_values(p)
    if subsets is None:
        subsets = [c for n in range(0, 7) for c in itertools.combinations(C02_SIX, n)]
    row_opts = row_opts or ([(1, 1, 1)] + ROW_ALTS)
    base_kw = dict(base_kw or {})
    mats = sorted(itertools.product(range(len(row_opts)), repeat=G), key=lambda m: (sum(1 for i in m if i), m))
    for m in mats:
        rows = [(list(row_opts[i]) if row_opts[i] is not None else None) for i in m]
        if all(r is None for r in rows):
            continue
        for sub in subsets:
            for ngm in ngm_values:
                kw = dict(base_kw)
                for name in sub:
                    kw[name] = tight[name]
                if ngm is not None:
                    kw['n_geos_max'] = ngm
                yield {'panel': p, 'rows': rows, 'nomatrix': False, 'extra': None, 'kw': kw,
                       'deviations': sum(1 for i in m if i) + len(sub) + (ngm is not None)}


def with_methods(configs, methods=('exhaustive_search', 'greedy_search')):
    for c in configs:
        for m in methods:
            d = dict(c)
            d['method'] = m
            yield d


def precondition_ok(case):
    """S5: the analysis window holds at least n_test + 3 dates."""
    kw = case['kw']
    T = case['panel']['T']
    win = min(T, kw.get('n_pretest_max', 90))
    return win >= kw.get('n_test', 3) + 3


QUICK_SUBSETS = [(), ('treatment_geos_range',), ('control_geos_range', 'geo_ratio_tolerance'),
                 ('volume_ratio_tolerance',), ('treatment_share_range',), ('budget_range',),
                 ('budget_range', 'treatment_share_range'), ('treatment_geos_range', 'control_geos_range',
                                                             'geo_ratio_tolerance', 'volume_ratio_tolerance')]


def family_space(tier, seed, include, base_kw, methods=('exhaustive_search', 'greedy_search'), k_values=(1, 50),
                 full3_subsets=((), ('budget_range',), ('treatment_share_range', 'budget_range')), T=12,
                 dev_d=(2, 3), with5=True):
    """The standard space of the search-family checks (C01-C04, C13, C14): FULL(2), FULL(3), DEV(4,d), DEV(5,2).

    quick:    FULL(2) x QUICK_SUBSETS x ngm{-,2}; FULL(3) x a few subsets x ngm{-,2}; DEV(4, dev_d[0])
    thorough: FULL(<=3) x all 64 subsets x ngm{-,2}; DEV(4, dev_d[1]); DEV(5, 2); second panel for DEV(4,2)
    """
    thorough = tier == 'thorough'
    out = []
    pA2 = {'name': 'A', 'G': 2, 'T': T}
    pA3 = {'name': 'A', 'G': 3, 'T': T}
    pB3 = {'name': 'B', 'G': 3, 'T': T}
    pB4 = {'name': 'B', 'G': 4, 'T': T}
    pA4 = {'name': 'A', 'G': 4, 'T': T, 'variant': 'shuffled'}
    pB5 = {'name': 'B', 'G': 5, 'T': T}
    parts = []
    if thorough:
        parts.append(full_configs(pA2, base_kw=base_kw))
        parts.append(full_configs(pA3, base_kw=base_kw))
        parts.append(full_configs(pB3, subsets=QUICK_SUBSETS, base_kw=base_kw))
        parts.append(dev_configs(pB4, dev_d[1], include, base_kw=base_kw, k_values=k_values))
        parts.append(dev_configs(pA4, 2, include, base_kw=base_kw, k_values=k_values))
        if with5:
            parts.append(dev_configs(pB5, 2, include, base_kw=base_kw, k_values=k_values))
    else:
        parts.append(full_configs(pA2, subsets=QUICK_SUBSETS, base_kw=base_kw))
        parts.append(full_configs(pA3, subsets=full3_subsets, base_kw=base_kw))
        parts.append(dev_configs(pB4, dev_d[0], include, base_kw=base_kw, k_values=k_values))
    if seed:
        parts.append(dev_configs({'name': 'C', 'G': 3, 'T': T, 'seed': seed}, 2, include, base_kw=base_kw,
                                 k_values=k_values))
    for part in parts:
        for c in with_methods(part, methods):
            if precondition_ok(c):
                out.append(c)
    out.sort(key=lambda c: (c['deviations'], c['panel']['G']))
    return out


PRIORS = [{'kw': {'n_designs': 2}, 'op': 'exhaustive_search'},
          {'kw': {'n_geos_max': 2}, 'op': 'geo_assignments'},
          {'kw': {'treatment_share_range': [0.05, 0.35], 'n_designs': 2}, 'op': 'greedy_search'},
          {'kw': {'n_geos_max': 2}, 'op': 'geo_assignments', 'interleave': True},
          {'kw': {}, 'op': 'geo_assignments', 'interleave': True},
          {'kw': {}, 'op': 'geo_assignments', 'shared_eligibility': True}]


def reuse_space(p, include, base_kw, methods=('exhaustive_search', 'greedy_search'), d=1, priors=PRIORS, k_values=()):
    """DEV(G,d) configurations run on a data object that has ALREADY served another matched-markets object
    (non-initial state of the shared TBRMMData: geo index installed, arrays built, frame truncated to >= this window)."""
    out = []
    for c in with_methods(dev_configs(p, d, include, base_kw=base_kw, with_matrix_level=False, k_values=k_values), methods):
        if not precondition_ok(c):
            continue
        for pr in priors:
            cc = dict(c)
            cc['prior'] = pr
            cc['deviations'] = c['deviations'] + 1
            out.append(cc)
    return out


def weak_space(methods=('exhaustive_search',), seeds=(0, 1, 5), k_values=(1, 2, 5), G=4, T=16):
    """WEAKLY correlated panels x min_corr in {0.8, 0.95, 0.999}: most or all designs fail the correlation test, so the
    ranking is decided by the other verdicts and by the rounded correlation (designs that fail a test compete)."""
    out = []
    # W: weak correlation; V: verdict-diverse (designs failing different SUBSETS of the four tests, incl. pairs of flag tuples
    # whose lexicographic order is the opposite of their pass count - checked when the panel was chosen)
    plist = [{'name': 'W', 'G': G, 'T': T, 'seed': sd} for sd in seeds] + [{'name': 'V', 'G': G, 'T': T, 'seed': sd} for sd in (3, 5, 7)]
    for p in plist:
        for mc_ in (0.8, 0.95, 0.999):
            for k in k_values:
                kw = {'n_designs': k}
                if mc_ != 0.8:
                    kw['min_corr'] = mc_
                rowsets = [[[1, 1, 1]] * G] + [[[1, 1, 1]] * g + [list(r)] + [[1, 1, 1]] * (G - g - 1)
                                               for g in (0, G - 1) for r in ((0, 1, 0), (1, 0, 1))]
                for rows in rowsets:
                    out.append({'panel': p, 'rows': [list(r) for r in rows], 'nomatrix': False, 'extra': None, 'kw': kw,
                                'deviations': 1 + (mc_ != 0.8) + (rows is not rowsets[0])})
    return [c for c in with_methods(out, methods) if precondition_ok(c)]


def mincorr_threshold_space(p, methods=('exhaustive_search', 'greedy_search'), base_kw=None, npm=90):
    """min_corr placed at every two-decimal value ADJACENT to the correlation of some design of the panel (the rounded
    correlation r and r + 0.01, inside [0.8, 1)): designs whose correlation lies just below / just above the threshold, and
    whose rounded correlation falls on the other side of it, occur for some value."""
    base_kw = dict(base_kw or {})
    _, tab = rpanel.table(panels.rows(p))
    ser = rpanel.window(tab, npm)
    geos = sorted(tab)
    rowd = {g: (1, 1, 1) for g in geos}
    vals = set()
    for T, C in relig.legal_designs(rowd, geos):
        c = rstats.corr(rpanel.agg(ser, C), rpanel.agg(ser, T))
        if c == c:
            r = round(float(c), 2)
            for m in (r, round(r + 0.01, 2), round(r - 0.01, 2)):
                if 0.8 <= m < 1.0 and abs(c - m) > 1e-9:
                    vals.add(m)
    out = []
    for m in sorted(vals):
        out.append({'panel': p, 'rows': [[1, 1, 1]] * p['G'], 'nomatrix': False, 'extra': None,
                    'kw': dict(base_kw, min_corr=m), 'deviations': 1})
    return [c for c in with_methods(out, methods) if precondition_ok(c)]


def _mids(values, lo_pad, hi_pad, min_gap=1e-6):
    vs = sorted(set(values))
    out = [vs[0] * lo_pad]
    for a, b in zip(vs, vs[1:]):
        if b - a > min_gap * max(abs(a), abs(b)):
            out.append((a + b) / 2.0)
    out.append(vs[-1] * hi_pad)
    return out


def threshold_space(p, methods=('exhaustive_search', 'greedy_search'), iroas_values=(1.0, 2.5), base_kw=None,
                    rho_values=(0.995,), parts=('budget', 'share', 'volume')):
    """Constraint bounds placed between EVERY two consecutive critical values of the panel, so that every behaviour
    of the threshold logic (per treatment group and per design) occurs:
      budget: optimistic impacts of all geo subsets and required impacts of all designs (also divided by iroas)
      share:  response shares of all geo subsets;   volume: control/treatment volume ratios of all designs."""
    import itertools as it
    base_kw = dict(base_kw or {})
    _, tab = rpanel.table(panels.rows(p))
    ser = rpanel.window(tab, base_kw.get('n_pretest_max', 90))
    share = rpanel.shares(tab)
    wshare = rpanel.shares(ser)      # shares within the analysis window: critical values of a WRONG reading, so that
    geos = sorted(tab)               # a bound lands between the documented (all dates) and the windowed value
    rowd = {g: (1, 1, 1) for g in geos}
    G = p['G']
    out = []
    designs = list(relig.legal_designs(rowd, geos))
    ri = []
    for T, C in designs:
        x, y = rpanel.agg(ser, C), rpanel.agg(ser, T)
        ri.append(rstats.est_impact(y, rstats.corr(x, y), 3, 0.9, 0.9, 0.8))
    subsets = [s for r in range(1, G + 1) for s in it.combinations(geos, r)]
    for rho in (rho_values if 'budget' in parts else ()):
        opt = [rstats.est_impact(rpanel.agg(ser, s), rho, 3, 0.9, 0.9, 0.8) for s in subsets]
        for iroas in iroas_values:
            crit = [v / iroas for v in ri + opt] + ([v for v in ri + opt] if iroas != 1.0 else [])
            mids = _mids(crit, 0.5, 2.0)
            top = max(crit) * 10
            for m in mids:
                for br in ([0.0, m], [m, top]):
                    kw = dict(base_kw, budget_range=br)
                    if iroas != 1.0:
                        kw['iroas'] = iroas
                    if rho != 0.995:
                        kw['rho_max'] = rho
                    out.append({'panel': p, 'rows': [[1, 1, 1]] * G, 'nomatrix': False, 'extra': None, 'kw': kw,
                                'deviations': 1 + (iroas != 1.0) + (rho != 0.995)})
    sh = [sum(share[g] for g in s) for s in subsets if len(s) < G]
    if 'n_pretest_max' in base_kw:
        sh += [sum(wshare[g] for g in s) for s in subsets if len(s) < G]
    for m in (_mids(sh, 0.5, 1.0) if 'share' in parts else ()):
        m = min(m, 0.9995)
        for sr in ([0.0001, m], [m, 0.9999]):
            if sr[0] < sr[1]:
                out.append({'panel': p, 'rows': [[1, 1, 1]] * G, 'nomatrix': False, 'extra': None,
                            'kw': dict(base_kw, treatment_share_range=sr), 'deviations': 1})
    ratios = []
    for T, C in designs:
        r = sum(share[g] for g in C) / sum(share[g] for g in T)
        ratios.append(max(r, 1 / r))
        if 'n_pretest_max' in base_kw:
            r = sum(wshare[g] for g in C) / sum(wshare[g] for g in T)
            ratios.append(max(r, 1 / r))
    for m in (_mids(ratios, 1.0, 1.5) if 'volume' in parts else ()):
        if m > 1.0 + 1e-9:
            out.append({'panel': p, 'rows': [[1, 1, 1]] * G, 'nomatrix': False, 'extra': None,
                        'kw': dict(base_kw, volume_ratio_tolerance=m - 1.0), 'deviations': 1})
    return [c for c in with_methods(out, methods) if precondition_ok(c)]


def reuse2_space(p, base_kw, methods=('exhaustive_search', 'greedy_search')):
    """Two-deviation REUSE slice: one non-free eligibility row x one parameter that makes the search drop a geo
    (n_geos_max, share range, budget range), run interleaved with another object that admits a different geo set."""
    G = p['G']
    out = []
    drops = [('n_geos_max', v) for v in sorted({2, 3} - {G})]
    drops += [('treatment_share_range', list(v)) for v in SHARES[1:3]]
    drops += [('budget_range', list(v)) for v in budget_alphabet(p)[:2]]
    inter = [pr for pr in PRIORS if pr.get('interleave')]
    for g in range(G):
        for r in ROW_ALTS:
            if r is None:
                continue
            for name, val in drops:
                rows = [[1, 1, 1] for _ in range(G)]
                rows[g] = list(r)
                for pr in inter:
                    for m in methods:
                        out.append({'panel': p, 'rows': rows, 'nomatrix': False, 'extra': None,
                                    'kw': dict(base_kw, **{name: val}), 'deviations': 3, 'prior': pr, 'method': m})
    return [c for c in out if precondition_ok(c)]
