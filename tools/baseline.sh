#!/bin/bash
# Run the repository's pinned baseline on a tree (default /repo) and compare with BASELINE.json's stable_pass list.
# Usage: tools/baseline.sh [TREE]   -> prints "BASELINE ok: N/N stable tests pass" or the list of regressions; exit 0/1
TREE="${1:-/repo}"
OUT=$(mktemp /tmp/junit.XXXXXX.xml)
cd "$TREE" && /venv/bin/python -m pytest -q -p no:cacheprovider --timeout=900 --continue-on-collection-errors --junitxml="$OUT" >/dev/null 2>&1
/venv/bin/python - "$OUT" <<'P'
import json, sys, xml.etree.ElementTree as ET
base = json.load(open('/root/.vp/BASELINE.json'))
stable = set(base['stable_pass'])
root = ET.parse(sys.argv[1]).getroot()
passed = set(); failed = set()
for tc in root.iter('testcase'):
    name = '%s::%s' % (tc.get('classname'), tc.get('name'))
    bad = any(ch.tag in ('failure', 'error', 'skipped') for ch in tc)
    (failed if bad else passed).add(name)
reg = sorted(stable - passed)
print('BASELINE %s: %d/%d stable tests pass; %d other tests pass, %d fail' % ('ok' if not reg else 'REGRESSED', len(stable & passed), len(stable), len(passed - stable), len(failed - stable)))
for r in reg[:20]: print('  regression:', r)
sys.exit(1 if reg else 0)
P
rc=$?
rm -f "$OUT"
exit $rc
