#!/bin/bash
# tools/collect_seed.sh <worktree> <seed dir name>   -> saves patch.diff + demo into /verif/seeded/<name>/
WT="$1"; NAME="$2"
D="$(dirname "$(readlink -f "$0")")/../seeded/$NAME"
mkdir -p "$D"
git -C "$WT" diff > "$D/patch.diff"
for f in "$WT"/demo_*.py; do [ -f "$f" ] && cp "$f" "$D/demo.py"; done
echo "saved $(wc -l < "$D/patch.diff") diff lines to $D"; git -C "$WT" diff --stat | tail -3
