#!/bin/bash
# tools/eval_wave.sh <suffix> [ids...]  - evaluate all seeded/<ID>-<suffix> changes:
#  phase 1 (parallel, 8 at a time): scratch worktree per seed, apply patch, repository baseline, demo without/with the change
#  phase 2 (sequential): the property's own quick check with VERIF_REPO=<worktree>; then remove the worktree.
# Output: /tmp/wave_<suffix>/<seed>.log and a summary table on stdout.  Evidence files are restored from git afterwards.
SUF="$1"; shift
VERIF="$(readlink -f "$(dirname "$(readlink -f "$0")")/..")"
OUT=/tmp/wave_$SUF; mkdir -p $OUT
IDS="$@"; [ -z "$IDS" ] && IDS=$(ls -d $VERIF/seeded/*-$SUF | xargs -n1 basename | sed "s/-$SUF//")
phase1() {
  id=$1; SUF=$2; VERIF=$3; OUT=$4
  S=$VERIF/seeded/$id-$SUF; WT=/tmp/wt_${id}_$SUF
  git -C /repo worktree remove --force $WT >/dev/null 2>&1; rm -rf $WT
  git -C /repo worktree add -q --detach $WT HEAD || { echo "worktree failed" > $OUT/$id.p1; return; }
  ( cd $WT && PYTHONPATH=$WT timeout 600 /venv/bin/python -W ignore $S/demo.py >/dev/null 2>&1 ); d0=$?
  if git -C $WT apply $S/patch.diff 2>/dev/null; then how=clean
  elif git -C $WT apply --3way $S/patch.diff >/dev/null 2>&1 && ! git -C $WT diff --name-only --diff-filter=U | grep -q .; then how=3way
  else echo "PATCH-DOES-NOT-APPLY" > $OUT/$id.p1; return; fi
  b=$($VERIF/tools/baseline.sh $WT | head -3 | tr '\n' ' ')
  ( cd $WT && PYTHONPATH=$WT timeout 600 /venv/bin/python -W ignore $S/demo.py >/dev/null 2>&1 ); d1=$?
  echo "apply=$how demo_orig=$d0 demo_patched=$d1 $b" > $OUT/$id.p1
}
export -f phase1
echo $IDS | tr ' ' '\n' | xargs -P 8 -I{} bash -c "phase1 {} $SUF $VERIF $OUT"
for id in $IDS; do
  WT=/tmp/wt_${id}_$SUF
  s=$(date +%s)
  out=$(cd $VERIF && VERIF_REPO=$WT ./check $id --tier quick 2>&1); rc=$?
  echo "$out" > $OUT/$id.check
  echo "$id-$SUF $(cat $OUT/$id.p1) | check rc=$rc $(( $(date +%s) - s ))s $(echo "$out" | grep -A1 '^VIOLATION' | grep detail | head -2 | cut -c1-200 | tr '\n' ' ')"
  [ "${KEEP_WT:-0}" = 1 ] || { git -C /repo worktree remove --force $WT >/dev/null 2>&1; rm -rf $WT; }
done
git -C $VERIF checkout -q -- evidence
