#!/venv/bin/python
"""Generate /verif/MANIFEST.json from the table below (kept in one place so it stays consistent)."""
import json
import os

HERE = os.path.dirname(os.path.dirname(os.path.abspath(__file__)))
ALL = ['C%02d' % i for i in range(1, 21)]

A_NOTE = ('Trusted base: CPython, numpy, pandas (only to build input frames), scipy.stats quantiles; the pure-Python '
          'reference models in mc/ref; response values restricted to the fixed integer panels/lattices named in the '
          'evidence. Structure (geos, eligibility rows, constraints, orders) is enumerated completely within the bound.')
B_NOTE = ('Trusted base: CPython, copy.deepcopy of library objects (self-checked against the fingerprint), the '
          'fingerprint covering every instance attribute; the transition function is the implementation itself, so '
          'every counted transition is a trace step validated against the implementation.')

CHECKS = {
    'C09': ('exploration', 'bounded-exhaustive enumeration of configurations (FULL/DEV spaces), exception-type oracle', A_NOTE,
            'Complete enumeration of eligibility x constraint configurations up to the stated bounds (every matrix for <=3 '
            'geos, <=2/3 deviations for 4-5 geos), both searches run on the real code; decides totality for every '
            'configuration in the space, which is where crashes hide (empty ranges, emptied groups).', '4 C09'),
}


def main():
    checks = []
    for pid in ALL:
        if pid not in CHECKS:
            continue
        level, tech, note, text, ref = CHECKS[pid]
        checks.append({
            'property_id': pid,
            'quick_cmd': './check %s --tier quick' % pid,
            'thorough_cmd': './check %s --tier thorough' % pid,
            'evidence_file': 'evidence/%s.json' % pid,
            'replay_cmd_template': './check %s --replay {path}' % pid,
            'engine': 'B-explicit-state-bfs' if level == 'model_checking' else 'A-bounded-exhaustive',
            'level_claimed': {'category': level, 'text': text, 'design_ref': 'DESIGN.md section ' + ref},
            'level_note': note,
            'technique': tech,
        })
    na = [{'property_id': p, 'reason': 'check not built yet in this session (planned, see DESIGN.md section 4); '
           'bounded-exhaustive exploration applies'} for p in ALL if p not in CHECKS]
    man = {
        'version': 1,
        'setup_cmd': '/venv/bin/python -m mc.selftest',
        'hooks': {
            'guard': 'MATCHED_MARKETS_VERIF',
            'enable': 'no hooks are needed: all properties are observed through the public API; the guard names no source change',
            'baseline_off_cmd': 'cd /repo && /venv/bin/python -m pytest -q -p no:cacheprovider --timeout=900 --continue-on-collection-errors',
            'source_commits': [],
            'add_only': True,
        },
        'engines': [
            {'name': 'A-bounded-exhaustive', 'path': 'mc/engine.py', 'serves_properties': [p for p in CHECKS if CHECKS[p][0] == 'exploration'],
             'kind_free_text': 'complete enumeration of bounded configuration/input spaces against reference models, on the real code'},
            {'name': 'B-explicit-state-bfs', 'path': 'mc/bfs.py', 'serves_properties': [p for p in CHECKS if CHECKS[p][0] == 'model_checking'],
             'kind_free_text': 'explicit-state BFS to closure over live library objects with full-attribute fingerprints, reference model in lock-step'},
        ],
        'checks': checks,
        'not_applicable': na,
        'notes': 'All checks import the library from /repo (VERIF_REPO overrides) on every run; pure Python, no build step.',
    }
    with open(os.path.join(HERE, 'MANIFEST.json'), 'w') as f:
        json.dump(man, f, indent=1)
    try:
        import jsonschema
        jsonschema.validate(man, json.load(open('/root/.vp/MANIFEST.schema.json')))
        print('MANIFEST.json valid, %d checks, %d not_applicable' % (len(checks), len(na)))
    except ImportError:
        print('written (jsonschema missing)')


if __name__ == '__main__':
    main()
