#!/venv/bin/python
"""Generate /verif/MANIFEST.json from the table below (kept in one place so it stays consistent)."""
import json
import os

HERE = os.path.dirname(os.path.dirname(os.path.abspath(__file__)))
ALL = ['C%02d' % i for i in range(1, 21)]

A_NOTE = ('Trusted base: CPython, numpy, pandas (only to build input frames), scipy.stats quantiles; the pure-Python '
          'reference models in mc/ref; response values restricted to the fixed integer panels/lattices named in the '
          'evidence. Structure (geos, eligibility rows, constraints, orders) is enumerated completely within the bound.')
B_NOTE = ('Trusted base: CPython, copy.deepcopy of library objects (self-checked against the fingerprint), the '
          'fingerprint covering every instance attribute; the transition function is the implementation itself, so '
          'every counted transition is a trace step validated against the implementation.')

CHECKS = {
    'C01': ('exploration', 'bounded-exhaustive enumeration of eligibility x constraint configurations; legality judged from raw rows', A_NOTE,
            'Every eligibility matrix (7 row types + absent) for <=3 geos x constraint subsets, and all <=2/3-deviation configurations for 4-5 geos, '
            'both searches, every returned design judged against the raw eligibility rows by an independent reference; decides legality for the '
            'whole bounded space rather than for sampled matrices.', '4 C01'),
    'C02': ('exploration', 'bounded-exhaustive enumeration; constraints recomputed from raw data (exact rationals on integer bounds) + completeness sub-check', A_NOTE,
            'Same complete spaces; every returned design re-evaluated against every specified constraint from the raw frame; inclusiveness of integer '
            'bounds decided by requiring that the exhaustive result contains every reference-feasible design when n_designs >= |feasible set|.', '4 C02'),
    'C03': ('exploration', 'bounded-exhaustive enumeration + brute-force feasible set per input (optimality oracle)', A_NOTE,
            'Optimality is a statement about designs NOT returned: per input the whole legal design space is enumerated independently and scored, '
            'and the returned list is compared with the k best; complete over the bounded configuration spaces x k in {1,2,5,50}.', '4 C03'),
    'C04': ('exploration', 'bounded-exhaustive enumeration; series bit-exact from the raw frame, closed-form corr/impact, fresh-object verdicts', A_NOTE,
            'Every position of every result list in the bounded spaces (windows, exclusions, k) is recomputed from the raw input frame.', '4 C04'),
    'C08': ('model_checking', 'explicit-state BFS to closure (stateless replay) over the real diagnostics object: set/clear/read histories incl. caller-owned buffers refilled in place; every read vs fresh object', B_NOTE,
            'All finite histories over the alphabet are covered because the BFS over full-attribute fingerprints reaches closure; every state and '
            'every read transition is compared with a freshly built object holding the model series.', '4 C08'),
    'C09': ('exploration', 'bounded-exhaustive enumeration of configurations (FULL/DEV/REUSE spaces + EDGE of the accepted parameter domain), exception-type + termination oracle', A_NOTE,
            'Complete enumeration of eligibility x constraint configurations up to the stated bounds (every matrix for <=3 '
            'geos, <=2/3 deviations for 4-5 geos), both searches run on the real code; decides totality for every '
            'configuration in the space, which is where crashes hide (empty ranges, emptied groups).', '4 C09'),
    'C10': ('model_checking', 'explicit-state BFS to closure over the real matched-markets object (query/search/retrieve histories, abandoned listings, environment and caller-side actions) vs fresh object', B_NOTE,
            'Per input, all call histories over 15 public operations are covered by closure of the BFS on the real object; each answer is compared '
            'with a fresh object, search_results with the last search, parameters and caller frames with their initial values.', '4 C10'),
    'C11': ('exploration', 'complete enumeration of eligibility matrices x size/ratio settings; three-way count agreement', A_NOTE,
            'All 7^G matrices for G<=3|4 and all class-count vectors for G=5|6; fast count = real generators = independent reference enumeration.', '4 C11'),
    'C12': ('exploration', 'bounded-exhaustive base cases x 20 metamorphic presentations (strict on row order / date shift / ID dtype, incl. a tied panel)', A_NOTE,
            'Every base configuration of the deviation-bounded spaces is re-run under all listed presentations; exact transformations (powers of two).', '4 C12'),
    'C13': ('exploration', 'bounded-exhaustive enumeration; greedy vs exhaustive vs brute-force feasible set on identical inputs', A_NOTE,
            'Both searches run on every configuration of the bounded spaces without budget/share; greedy designs must lie in the enumerated feasible set and not beat its best.', '4 C13'),
    'C14': ('model_checking', 'explicit-state BFS to closure over the real HeapDict (push/read histories) + exhaustive search-space check of order/cap', B_NOTE,
            'The bounded container has a finite layout space: BFS reaches closure for capacities 0..3 over 2 keys x 5 items (incl. equal-but-distinguishable), '
            'so all push sequences over the alphabet are covered; order/cap of results checked on every search of the bounded configuration space.', '4 C14'),
    'C15': ('exploration', 'complete enumeration of cell patterns, eligibility tables and geo-index orders (incl. pairs of successive assignments)', A_NOTE,
            'Every present/absent cell pattern for small frames, every eligibility table over {absent+7 types}^3 with/without foreign geos, every ordered index subset.', '4 C15'),
    'C16': ('exploration', 'complete enumeration of tables over the eight rows, malformed variants, all ordered subsets', A_NOTE,
            'All 8^n tables (n<=3|4) and all ordered subsets including the empty one against a reference partition.', '4 C16'),
    'C17': ('exploration', 'complete boundary grid per field and all field pairs on a reduced grid vs a three-valued domain predicate', A_NOTE,
            'Acceptance is decided on every grid point (bounds, float neighbours, specials, wrong types) and for every pair of fields.', '4 C17'),
    'C05': ('exploration', 'complete enumeration of a series x parameter lattice; two real code paths (design-side closed form vs tbr.TBR) + closed-form reference + metamorphic relations', A_NOTE,
            'Every point of the stated lattice: design-side required impact, the TBR post-analysis of a frame built to show exactly that lift, and the closed form must agree.', '4 C05'),
    'C06': ('exploration', 'complete enumeration of a frame lattice x layout variants x summary settings vs closed-form TBR posterior (every analysed day)', A_NOTE,
            'All frames of the lattice in all layouts; degrees of freedom, location and scale on every day against OLS + Kerman eq. 5, all summary columns against reference quantiles, design-side fit.', '4 C06'),
    'C07': ('exploration', 'complete enumeration of cost-frame lattice x scenarios x settings; coherence, determinism, unit equivariance', A_NOTE,
            'All frames x cost scenarios x (tails, level, threshold, random_state) of the stated lattice; fixed-cost identities against the closed form, determinism by repeated calls, equivariance by re-running on rescaled frames.', '4 C07'),
    'C18': ('exploration', 'complete enumeration of cooldown-frame lattice x metric x level x tails incl. control swings and unassigned-period dates', A_NOTE,
            'All frames of the stated lattice; every clause of the statement against the closed-form posterior; the known finding K1 is keyed by a reference-model condition.', '4 C18'),
    'C19': ('exploration', 'complete enumeration of frames (geos, planted noisy geo / outlier date, names, outside-experiment and twin geos) x 7 presentations / object states; consistency oracle', A_NOTE,
            'All frames of the stated lattice fitted in three row orders; screened data and analysis series recomputed from the input and the reported removals.', '4 C19'),
    'C20': ('exploration', 'complete enumeration of all lists of <=2|3 entries over 44 entries, deeper lists on small alphabets, two-call histories, malformed embeddings vs date-ordinal reference', A_NOTE,
            'Every list over the entry alphabet up to the length bound, so every order/duplication/overlap pattern at that length is covered.', '4 C20'),
}


def main():
    checks = []
    for pid in ALL:
        if pid not in CHECKS:
            continue
        level, tech, note, text, ref = CHECKS[pid]
        checks.append({
            'property_id': pid,
            'quick_cmd': './check %s --tier quick' % pid,
            'thorough_cmd': './check %s --tier thorough' % pid,
            'evidence_file': 'evidence/%s.json' % pid,
            'replay_cmd_template': './check %s --replay {path}' % pid,
            'engine': 'B-explicit-state-bfs' if level == 'model_checking' else 'A-bounded-exhaustive',
            'level_claimed': {'category': level, 'text': text, 'design_ref': 'DESIGN.md section ' + ref},
            'level_note': note,
            'technique': tech,
        })
    na = [{'property_id': p, 'reason': 'check not built yet (planned, see DESIGN.md section 4); '
           'bounded-exhaustive exploration applies'} for p in ALL if p not in CHECKS]
    man = {
        'version': 1,
        'setup_cmd': '/venv/bin/python -m mc.selftest',
        'hooks': {
            'guard': 'MATCHED_MARKETS_VERIF',
            'enable': 'no hooks are needed: all properties are observed through the public API; the guard names no source change',
            'baseline_off_cmd': 'cd /repo && /venv/bin/python -m pytest -q -p no:cacheprovider --timeout=900 --continue-on-collection-errors',
            'source_commits': [],
            'add_only': True,
        },
        'engines': [
            {'name': 'A-bounded-exhaustive', 'path': 'mc/engine.py', 'serves_properties': [p for p in CHECKS if CHECKS[p][0] == 'exploration'],
             'kind_free_text': 'complete enumeration of bounded configuration/input spaces against reference models, on the real code'},
            {'name': 'B-explicit-state-bfs', 'path': 'mc/bfs.py', 'serves_properties': [p for p in CHECKS if CHECKS[p][0] == 'model_checking'],
             'kind_free_text': 'explicit-state BFS to closure over live library objects with full-attribute fingerprints, reference model in lock-step'},
        ],
        'checks': checks,
        'not_applicable': na,
        'notes': 'All checks import the library from /repo (VERIF_REPO overrides) on every run; pure Python, no build step.',
    }
    with open(os.path.join(HERE, 'MANIFEST.json'), 'w') as f:
        json.dump(man, f, indent=1)
    try:
        import jsonschema
        jsonschema.validate(man, json.load(open('/root/.vp/MANIFEST.schema.json')))
        print('MANIFEST.json valid, %d checks, %d not_applicable' % (len(checks), len(na)))
    except ImportError:
        print('written (jsonschema missing)')


if __name__ == '__main__':
    main()
