#!/venv/bin/python
"""Regenerate the seeded-change table in DESIGN.md (between the SEED-TABLE markers) from seeded/*/meta.json."""
import json, os, re
HERE = os.path.dirname(os.path.dirname(os.path.abspath(__file__)))
rows = ['| seed | property | change | needs | detected by |', '|---|---|---|---|---|']
for name in sorted(os.listdir(os.path.join(HERE, 'seeded'))):
    mp = os.path.join(HERE, 'seeded', name, 'meta.json')
    if not os.path.exists(mp):
        continue
    m = json.load(open(mp))
    rows.append('| %s | %s | %s | %s | %s |' % (name, m['property'], m['change'], m['needs_to_manifest'], m['detected_by']))
p = os.path.join(HERE, 'DESIGN.md')
s = open(p).read()
a, b = '<!-- SEED-TABLE-BEGIN -->', '<!-- SEED-TABLE-END -->'
assert a in s and b in s
s = s[:s.index(a) + len(a)] + '\n' + '\n'.join(rows) + '\n' + s[s.index(b):]
open(p, 'w').write(s)
print('%d seeds' % (len(rows) - 2))
