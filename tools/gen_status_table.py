#!/venv/bin/python
"""Regenerate the 'as built' table in DESIGN.md (between STATUS-TABLE markers) from the committed quick-tier evidence."""
import json, os
HERE = os.path.dirname(os.path.dirname(os.path.abspath(__file__)))
rows = ['| id | level | quick tier: what this run covered (measured, from evidence/<id>.json) | wall |', '|---|---|---|---|']
for i in range(1, 21):
    pid = 'C%02d' % i
    p = os.path.join(HERE, 'evidence', pid + '.json')
    if not os.path.exists(p):
        rows.append('| %s | - | no evidence file | - |' % pid)
        continue
    e = json.load(open(p))
    c = e['coverage']
    if e['level'] == 'model_checking':
        what = '%s states, %s transitions (all executed on the implementation), closure reached: %s, max depth %s' % (
            c.get('states'), c.get('transitions'), c.get('closure_reached'), c.get('max_depth'))
        if c.get('cases_in_space'):
            what += '; plus %s search cases (%s non-trivial)' % (c.get('cases_in_space'), c.get('distinct_nontrivial')) if pid == 'C14' else '; %s inputs' % c.get('inputs', c.get('cases_in_space'))
    else:
        what = '%s cases enumerated (exhaustive: %s), %s distinct non-trivial, %s distinct outcomes' % (
            c.get('evaluations'), c.get('exhaustive'), c.get('distinct_nontrivial'), c.get('distinct_outcomes'))
        cnt = c.get('counters') or {}
        extra = [k for k in cnt if k.startswith(('designs', 'feasible', 'subsets', 'geo_index', 'fits', 'summary', 'transformed'))][:2]
        if extra:
            what += '; ' + ', '.join('%s=%s' % (k, cnt[k]) for k in extra)
    if c.get('known_findings_matched'):
        what += '; known finding matched in %s cases' % sum(c['known_findings_matched'].values())
    rows.append('| %s | %s | %s | %.0f s |' % (pid, e['level'], what, e['wall_s']))
p = os.path.join(HERE, 'DESIGN.md')
s = open(p).read()
a, b = '<!-- STATUS-TABLE-BEGIN -->', '<!-- STATUS-TABLE-END -->'
assert a in s and b in s
s = s[:s.index(a) + len(a)] + '\n' + '\n'.join(rows) + '\n' + s[s.index(b):]
open(p, 'w').write(s)
print('ok')
