#!/bin/bash
# tools/regress_seeds.sh [seed names...]  - run every kept seeded change against the quick check of its own property
# (no baseline, no demo: those were confirmed when the seed was kept).  Prints one line per seed; "MISSED" if rc != 1.
VERIF="$(readlink -f "$(dirname "$(readlink -f "$0")")/..")"
cd "$VERIF"
SEEDS="$@"; [ -z "$SEEDS" ] && SEEDS=$(ls seeded)
for s in $SEEDS; do
  id=${s%%-*}
  out=$(timeout 2400 tools/try_seed.sh seeded/$s/patch.diff --no-baseline $id 2>&1)
  rc=$(echo "$out" | grep -o "^$id rc=[0-9]*" | head -1 | sed 's/.*rc=//')
  [ "$rc" = 1 ] && tag=caught || tag="MISSED(rc=$rc)"
  echo "$s $tag $(echo "$out" | grep "^$id rc" | cut -c1-200)"
done
