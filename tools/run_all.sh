#!/bin/bash
# Run every check of one tier sequentially; print one summary line per property.  Usage: tools/run_all.sh [quick|thorough] [ids...]
cd "$(dirname "$(readlink -f "$0")")/.."
TIER="${1:-quick}"; shift
IDS="$@"; [ -z "$IDS" ] && IDS="C01 C02 C03 C04 C05 C06 C07 C08 C09 C10 C11 C12 C13 C14 C15 C16 C17 C18 C19 C20"
mkdir -p /tmp/verif_logs
for id in $IDS; do
  s=$(date +%s)
  ./check $id --tier $TIER > /tmp/verif_logs/$id.$TIER.log 2>&1; rc=$?
  e=$(( $(date +%s) - s ))
  echo "$id rc=$rc ${e}s $(grep -E '^(C[0-9]+ tier|VIOLATION)' /tmp/verif_logs/$id.$TIER.log | head -3 | cut -c1-220 | tr '\n' ' ')"
done
