#!/bin/bash
# Evaluate one seeded change: tools/try_seed.sh <patch.diff> [--demo demo.py] [--no-baseline] <check ids...>
#  - makes a scratch worktree of /repo HEAD under /tmp, applies the patch there
#  - runs the repository baseline on it (the change must survive the 529 stable tests)
#  - runs the demo with and without the change (if given)
#  - runs the named checks (quick tier) with VERIF_REPO=<scratch>; prints rc and the first VIOLATION detail per check
#  - removes the scratch worktree.    Evidence files written by these runs are restored from git afterwards.
set -u
PATCH="$(readlink -f "$1")"; shift
DEMO=""; BASE=1
while [[ "${1:-}" == --* ]]; do
  case "$1" in
    --demo) DEMO="$(readlink -f "$2")"; shift 2;;
    --no-baseline) BASE=0; shift;;
    *) echo "unknown option $1"; exit 2;;
  esac
done
VERIF="$(dirname "$(readlink -f "$0")")/.."
WT=$(mktemp -d /tmp/seedwt.XXXXXX); rmdir "$WT"
git -C /repo worktree add -q --detach "$WT" HEAD || exit 2
cleanup() { git -C /repo worktree remove --force "$WT" >/dev/null 2>&1; rm -rf "$WT"; git -C "$VERIF" checkout -q -- evidence 2>/dev/null; }
trap cleanup EXIT
if [ -n "$DEMO" ]; then
  ( cd "$WT" && PYTHONPATH="$WT" /venv/bin/python -W ignore "$DEMO" >/dev/null 2>&1 ); echo "demo on original code: rc=$?"
fi
if ! git -C "$WT" apply "$PATCH" 2>/dev/null; then
  if git -C "$WT" apply --3way "$PATCH" >/dev/null 2>&1 && ! git -C "$WT" diff --name-only --diff-filter=U | grep -q .; then
    echo "(patch applied with 3-way merge onto $(git -C /repo rev-parse --short HEAD))"
  else
    BASE="${SEED_BASE:-24c8056}"
    echo "(patch does not apply to HEAD; using its base commit $BASE instead)"
    git -C /repo worktree remove --force "$WT" >/dev/null 2>&1; rm -rf "$WT"
    git -C /repo worktree add -q --detach "$WT" "$BASE" || exit 2
    git -C "$WT" apply "$PATCH" || { echo "PATCH DOES NOT APPLY"; exit 2; }
  fi
fi
if [ "$BASE" = 1 ]; then "$VERIF/tools/baseline.sh" "$WT"; fi
if [ -n "$DEMO" ]; then
  ( cd "$WT" && PYTHONPATH="$WT" /venv/bin/python -W ignore "$DEMO" >/dev/null 2>&1 ); echo "demo with the change:  rc=$?"
fi
for id in "$@"; do
  s=$(date +%s)
  out=$(cd "$VERIF" && VERIF_REPO="$WT" ./check "$id" --tier "${SEED_TIER:-quick}" 2>&1); rc=$?
  echo "$id rc=$rc $(( $(date +%s) - s ))s $(echo "$out" | grep -A1 '^VIOLATION' | grep detail | head -2 | cut -c1-260 | tr '\n' ' ')"
  [ $rc -eq 2 ] && echo "$out" | grep -i 'harness' | head -3 | cut -c1-400
done
